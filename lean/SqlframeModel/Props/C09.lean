/-
Props/C09.lean — C09: Python values and declared types survive the trip through the engine; no string
content can change the statement's structure.

Decided here (machine-checked, over the regenerated `Gen.Values`):
  strings    every NUL-free string is written as ONE literal token that the engine's scanner reads back to
             exactly that string, wherever it stands in the statement and whatever follows a separator
             (C09_string_token, C09_statement, C09_structure, C09_values_tokens, C09_unescape)
  integers   every 64-bit integer is read back (C09_int_roundtrip); larger ones are rejected, not wrapped
  kinds      which SQL type is inferred for which Python value (C09_infer_order, C09_infer_spec), which
             literal kind is emitted (C09_lit_kind), that typed columns are CAST (C09_cast_present)
  names      the column names the five schema forms give (C09_auto_names, C09_schema_forms)
  rows       how dict rows are laid out (C09_dict_rows)
  scalars    None / bool / int / str cells round-trip at the literal level (C09_partial)
NOT decided, not claimed: that a float, date, timestamp or bytes value survives — its lexical form is
produced by sqlglot / Python `repr`/`isoformat`/`hex` and read back by the engine's parser; the model
treats such a literal as an opaque token of the right kind.  Those values are run through the real
code by the correspondence stream only.
-/
import SqlframeModel.Lemmas.C09
import SqlframeModel.Impl.C09Scope
namespace Sqlframe
open Gen C09

-- ================================================================================================
-- strings: no content can change the structure of the statement
-- ================================================================================================

/-- every NUL-free string: its literal is read as one string token carrying exactly `s`, and scanning
    of whatever follows starts in the default state (so nothing inside `s` — quotes, backslashes, `--`,
    `/*`, `;`, newlines — is ever seen by the scanner as syntax) -/
theorem C09_string_token (s rest : List Char) (h : H_noNul s) (hsep : C09.Sep SQ rest) :
    lex (quote s ++ rest) = .quoted SQ s :: lex rest :=
  lex_quoteWith SQ (Or.inl rfl) s rest h hsep

/-- a literal anywhere in a statement: the tokens before it and after it do not depend on `s` -/
theorem C09_statement (pre s post : List Char) (hpre : stateAfter .norm pre = .norm)
    (h : H_noNul s) (hsep : C09.Sep SQ post) :
    lex (pre ++ (quote s ++ post)) = emitted .norm pre ++ .quoted SQ s :: lex post := by
  unfold lex
  rw [run_append, hpre]
  exact congrArg _ (C09_string_token s post h hsep)

/-- the shape of a token list: string contents erased -/
def C09.Tok.shape : Tok → Tok
  | .quoted q _ => .quoted q []
  | t => t

/-- replacing the content of a string literal changes no token of the statement except that literal's
    own content -/
theorem C09_structure (pre s₁ s₂ post : List Char) (hpre : stateAfter .norm pre = .norm)
    (h₁ : H_noNul s₁) (h₂ : H_noNul s₂) (hsep : C09.Sep SQ post) :
    (lex (pre ++ (quote s₁ ++ post))).map Tok.shape = (lex (pre ++ (quote s₂ ++ post))).map Tok.shape := by
  rw [C09_statement pre s₁ post hpre h₁ hsep, C09_statement pre s₂ post hpre h₂ hsep]
  simp [Tok.shape]

/-- a VALUES-like sequence of any number of string cells, each followed by a comma -/
def C09.renderCells : List (List Char) → List Char
  | [] => []
  | s :: ss => quote s ++ ',' :: renderCells ss

theorem C09_values_tokens (ss : List (List Char)) (rest : List Char) (h : ∀ s ∈ ss, H_noNul s) :
    lex (renderCells ss ++ rest) = ss.flatMap (fun s => [.quoted SQ s, .other ',']) ++ lex rest := by
  induction ss with
  | nil => simp [renderCells]
  | cons s ss ih =>
    have hs : H_noNul s := h s (by simp)
    have ih' := ih (fun x hx => h x (by simp [hx]))
    have e : renderCells (s :: ss) ++ rest = quote s ++ (',' :: (renderCells ss ++ rest)) := by
      simp [renderCells, List.append_assoc]
    rw [e, C09_string_token s _ hs (by simp [C09.Sep, SQ])]
    have : lex (',' :: (renderCells ss ++ rest)) = .other ',' :: lex (renderCells ss ++ rest) := by
      simp [lex, run, step, stepNorm, NUL, SQ, DQ]
    rw [this, ih']
    simp

/-- the engine's reading of the literal is the original string -/
theorem C09_unescape (s : List Char) (h : H_noNul s) : unquote (quote s) = some s := by
  have := C09_string_token s [] h (by simp [C09.Sep])
  simp only [List.append_nil] at this
  unfold unquote
  rw [this]
  simp [lex, run, finish]

/-- different strings have different literals -/
theorem C09_quote_injective (s₁ s₂ : List Char) (h₁ : H_noNul s₁) (h₂ : H_noNul s₂) (e : quote s₁ = quote s₂) :
    s₁ = s₂ := by
  have a := C09_unescape s₁ h₁
  rw [e, C09_unescape s₂ h₂] at a
  exact (Option.some.inj a).symm

/-- why H_noNul is a hypothesis: a NUL inside a string ends the input inside the literal -/
theorem C09_cex_noNul : lex (quote ['x', NUL, 'y'] ++ [',', '1']) = [.unterminated] := by decide

/-- … for every string that contains one -/
theorem C09_cex_noNul_all (a b rest : List Char) (ha : NoNul a) :
    lex (quote (a ++ NUL :: b) ++ rest) = [.unterminated] := by
  have hdead : ∀ l : List Char, run .dead l = [] := by
    intro l; induction l with
    | nil => simp [run, finish]
    | cons c cs ih => simp [run, step, ih]
  have hbody : ∀ (s acc more : List Char), NoNul s →
      run (.inQ SQ acc) (quoteBody SQ s ++ more) = run (.inQ SQ (s.reverse ++ acc)) more := by
    intro s
    induction s with
    | nil => intro acc more _; simp [quoteBody]
    | cons c cs ih =>
      intro acc more hs
      have hc : c ≠ NUL := hs c (by simp)
      have hcs : NoNul cs := fun x hx => hs x (by simp [hx])
      by_cases h : c = SQ
      · subst h; simp [quoteBody, run, step, hc, ih _ _ hcs, List.append_assoc]
      · simp [quoteBody, h, run, step, hc, ih _ _ hcs, List.append_assoc]
  have hsplit : ∀ (a x : List Char), quoteBody SQ (a ++ x) = quoteBody SQ a ++ quoteBody SQ x := by
    intro a x; induction a with
    | nil => simp [quoteBody]
    | cons c cs ih => by_cases h : c = SQ <;> simp [quoteBody, h, ih]
  have hn : NUL ≠ SQ := by decide
  have e : quote (a ++ NUL :: b) ++ rest = SQ :: (quoteBody SQ a ++ (NUL :: (quoteBody SQ b ++ SQ :: rest))) := by
    simp [quote, quoteWith, hsplit, quoteBody, hn, List.append_assoc]
  rw [e]
  simp only [lex, run, step, stepNorm_quote (Or.inl rfl), List.nil_append]
  rw [hbody a [] _ ha]
  simp [run, step, hdead]

/-- why `Sep` is a side condition: two adjacent literals are one token (`'a''b'` is the string a'b) -/
theorem C09_cex_sep : lex (quote ['a'] ++ quote ['b']) = [.quoted SQ ['a', '\'', 'b']] := by decide

-- non-vacuity
example : lex (quote "it's -- /* ; \\ \n".toList ++ ", 1".toList)
    = .quoted SQ "it's -- /* ; \\ \n".toList :: lex ", 1".toList :=
  C09_string_token _ _ (by decide) (by decide)

example : stateAfter .norm "SELECT * FROM (VALUES (".toList = .norm := by decide

-- ================================================================================================
-- integers
-- ================================================================================================

/-- every 64-bit integer: the text `str(i)` under CAST AS BIGINT is read back as `i` -/
theorem C09_int_roundtrip (i : Int) (h : inInt64 i) : readInt (renderInt i) = some i := by
  simp [readInt, readIntText_renderInt, h]

/-- an integer outside the 64-bit range is rejected (never silently wrapped) -/
theorem C09_int_overflow (i : Int) (h : ¬ inInt64 i) : readInt (renderInt i) = none := by
  simp [readInt, readIntText_renderInt, h]

example : inInt64 (-9223372036854775808) ∧ inInt64 9223372036854775807 ∧ ¬ inInt64 9223372036854775808 := by decide

-- ================================================================================================
-- type inference and literal kinds
-- ================================================================================================

/-- the order of the isinstance chain: a bool is boolean (not bigint), a datetime is a timestamp (not a
    date), a Row is a struct (not an array) -/
theorem C09_infer_order :
    inferType .bool = some "boolean" ∧ inferType .int = some "bigint" ∧
    inferType .datetimeNaive = some "timestamp" ∧ inferType .datetimeTz = some "timestamptz" ∧
    inferType .date = some "date" ∧ inferType .row = some "struct" ∧ inferType .list = some "array" := by
  decide

/-- totality and agreement with PySpark's inference on every kind -/
theorem C09_infer_spec (k : PyKind) : (inferType k).map tyFamily = specType k := by
  cases k <;> decide

theorem C09_infer_total (k : PyKind) (h : k ≠ .none) : (inferType k).isSome = true := by
  cases k <;> first | exact absurd rfl h | decide

/-- the literal `lit` emits for a value is one the engine reads as a value of the value's own type -/
theorem C09_lit_kind (k : PyKind) (hk : k ≠ .tuple) (h : H_infLiteral k) : typedRight k (litOf k) = true := by
  rcases h with h | h
  · exact absurd h (by decide)
  · cases k <;> first | exact absurd rfl h | exact absurd rfl hk | decide

/-- a value INSIDE a list / Row / dict, or used as the Python operand of a Column operator, does not pass
    through `functions.lit` but through `Column._lit`: that path, too, emits a literal of the value's own
    type (infinity excepted: H_infLiteral).  A special case that lives in `lit` only — e.g. the NaN cast —
    breaks this. -/
theorem C09_nested_lit_kind (k : PyKind) (hk : k ≠ .tuple) (hinf : k ≠ .floatInf) :
    typedRight k (columnLit k) = true := by
  cases k <;> first | exact absurd rfl hk | exact absurd rfl hinf | decide

/-- why H_infLiteral is a hypothesis: `lit(float('inf'))` is the *string* 'inf' -/
theorem C09_cex_infLiteral (h : litInfIsString = true) : litOf .floatInf = .string ∧ typedRight .floatInf (litOf .floatInf) = false := by
  constructor <;> simp [litOf, h] <;> decide

/-- a Python infinity used as a bare operand (`col('f') < float('inf')`) goes to `exp.convert`: the word `inf` -/
theorem C09_operand_inf : operandLit .floatInf = .number := by decide

/-- a finite float comes back as a Python float -/
theorem C09_float_back (decimalTyped direct : Bool) (h : H_listFloat decimalTyped direct) :
    floatBack decimalTyped direct = .float := by
  rcases h with h | h
  · simp [floatBack, h]
  · cases decimalTyped <;> cases direct <;> simp [floatBack] at h ⊢

/-- why H_listFloat is a hypothesis: `select(lit([0.1]))` gives `[Decimal('0.1')]` -/
theorem C09_cex_listFloat (h : toValueDecimalToFloat = false) : floatBack true false = .decimal := by
  simp [floatBack, h]

/-- the finite floats that share a column / array with a NaN keep double precision -/
theorem C09_float_width (u : Bool) (h : H_nanWidth u) : groupFloatBits u = 53 := by
  rcases h with h | h
  · simp [groupFloatBits, h]
  · simp [groupFloatBits, h]

/-- why H_nanWidth is a hypothesis: `createDataFrame([(715610.9448721367,), (nan,)], ['f'])` gives 715610.9375 -/
theorem C09_cex_nanWidth (h : nanLitTy = some "float") : groupFloatBits true = 24 := by
  simp [groupFloatBits, h]

example : H_nanWidth false := Or.inr rfl

/-- a column whose type is known (declared or inferred) is CAST to it -/
theorem C09_cast_present (typed : Bool) (h : typed = true) : columnHasCast typed = true := by
  subst h; decide

-- ================================================================================================
-- column names
-- ================================================================================================

/-- auto names are `_1 … _n`, for every row width -/
theorem C09_auto_names (n : Nat) : autoNames n = specAutoNames n := by
  unfold autoNames specAutoNames
  have e1 : autoNameCount n = n := by simp [autoNameCount]
  have e2 : autoNamePrefix = "_" := by decide
  have e3 : autoNameStart = 1 := by decide
  rw [e1, e2, e3]

theorem C09.stripS_trimmed {s : String} (h : trimmed s) : stripS s = s := by
  unfold stripS; rw [h]; exact String.ofList_toList

theorem C09.map_stripS {ns : List String} (h : allTrimmed ns) : ns.map stripS = ns := by
  induction ns with
  | nil => rfl
  | cons n rest ih =>
    have h1 : stripS n = n := stripS_trimmed (h n (by simp))
    have h2 := ih (fun x hx => h x (by simp [hx]))
    simp [h1, h2]

/-- the five schema forms: the derived column names are the declared names (auto names for none) -/
theorem C09_schema_forms (form : SchemaForm) (shape : RowShape) (h : SchemaInScope form shape) :
    derivedNames form shape = some (specNames form shape) := by
  cases form with
  | none =>
    cases shape with
    | positional n => simp [derivedNames, specNames, C09_auto_names]
    | keyed ks =>
      rcases h with h | h
      · exact absurd h (by decide)
      · have : (ks.all fun n => ks.contains n) = true := by
          rw [List.all_eq_true]; intro n hn; simpa using hn
        simp [derivedNames, specNames, map_stripS h]
  | names ns =>
    cases shape with
    | positional n =>
      rcases h with h | h
      · exact absurd h (by decide)
      · simp [derivedNames, specNames, map_stripS h]
    | keyed ks =>
      obtain ⟨h1, h2⟩ := h
      rcases h1 with h1 | h1
      · exact absurd h1 (by decide)
      · have : (ns.all fun n => ks.contains n) = true := by
          rw [List.all_eq_true]; intro n hn; simpa using h2 n hn
        simpa [derivedNames, specNames, map_stripS h1] using h2
  | ddl fs =>
    obtain ⟨hne, hs, hstruct⟩ := h
    have hne' : fs.map (fun f => (f.1.toList, f.2.toList)) ≠ [] := by simpa using hne
    have hs' : ∀ f ∈ fs.map (fun f => (f.1.toList, f.2.toList)), simpleField f := by
      intro f hf
      obtain ⟨g, hg, rfl⟩ := List.mem_map.mp hf
      exact hs g hg
    simp only [derivedNames, specNames, ddlFields_renderDDL _ hne' hs' hstruct, Option.map_some, List.map_map]
    congr 1
    apply List.map_congr_left
    intro f _
    simp [String.ofList_toList]
  | dict fs => simp [derivedNames, specNames]
  | structType fs => simp [derivedNames, specNames]

-- why the schema hypotheses are hypotheses (each witness is replayed on the real code)
/-- H_ddlSimple: a type with a comma is cut in two: `b decimal(10,2)` -/
theorem C09_cex_ddlSimple :
    derivedNames (.ddl [("a", "int"), ("b", "decimal(10,2)")]) (.positional 2) = none := by decide

/-- H_namesAreFields: renaming Row / dict fields by a list of names raises -/
theorem C09_cex_namesAreFields : derivedNames (.names ["c", "d"]) (.keyed ["a", "b"]) = none := by decide

/-- H_trimmedNames: blanks around a listed name are dropped (PySpark keeps them) -/
theorem C09_cex_trimmedNames (h : listNamesStripped = true) :
    derivedNames (.names [" a"]) (.positional 1) = some ["a"] := by
  simp [derivedNames, h]; decide

/-- … and a Row field / dict key with blanks around it cannot be used at all (KeyError) -/
theorem C09_cex_trimmedFields (h : inferredNamesStripped = true) :
    derivedNames .none (.keyed [" a "]) = none := by
  simp [derivedNames, h]; decide

example : SchemaInScope (.ddl [("a", "int"), ("Sel", "array<string>")]) (.positional 2) := by decide
example : SchemaInScope (.names ["x", "y z"]) (.keyed ["y z", "x"]) := by decide

-- ================================================================================================
-- dict rows
-- ================================================================================================

/-- a dict row is laid out under the right columns -/
theorem C09_dict_rows {α : Type} (cols : List String) (row : List (String × α))
    (hnd : (row.map (·.1)).Nodup) (h : H_dictOrder cols row) :
    dictRowCells cols row = specDictRowCells cols row := by
  rcases h with h | h
  · simp [dictRowCells, specDictRowCells, h]
  · subst h
    by_cases hb : dictRowsByKey = true
    · simp [dictRowCells, specDictRowCells, hb]
    · simp only [dictRowCells, specDictRowCells, hb]
      exact (lookup_own_keys row hnd).symm

/-- why H_dictOrder is a hypothesis: the second row of `[{'a':1,'b':2},{'b':3,'a':4}]` -/
theorem C09_cex_dictOrder (h : dictRowsByKey = false) :
    dictRowCells ["a", "b"] [("b", 3), ("a", 4)] = [some 3, some 4] ∧
    specDictRowCells ["a", "b"] [("b", 3), ("a", 4)] = [some 4, some 3] := by
  constructor
  · simp [dictRowCells, h]
  · decide

example : H_dictOrder ["a", "b"] [("a", 1), ("b", 2)] := by decide

-- ================================================================================================
-- scalar cells at the literal level
-- ================================================================================================

def C09.Scalar.InScope : Scalar → Prop
  | .str s => H_noNul s
  | .int i => inInt64 i
  | _ => True

theorem C09.renderInt_ne_NULL (i : Int) : renderInt i ≠ ['N', 'U', 'L', 'L'] := by
  intro e
  have := readIntText_renderInt i
  rw [e] at this
  have hn : readIntText ['N', 'U', 'L', 'L'] = none := by decide
  rw [hn] at this
  cases this

theorem C09.quote_ne_NULL (s : List Char) : quote s ≠ ['N', 'U', 'L', 'L'] := by
  intro e; simp [quote, quoteWith, SQ] at e

/-- None, bool, 64-bit int and NUL-free str cells: the literal sqlframe writes, read by the engine under
    the CAST to the column's type, is the original value -/
theorem C09_partial (v : Scalar) (ty : ColTy) (hfit : v.fits ty) (h : v.InScope) :
    readAs ty v.text = some v := by
  cases v with
  | none => simp [Scalar.text, readAs]
  | bool b =>
    cases ty <;> simp [Scalar.fits] at hfit
    cases b <;> simp [Scalar.text, readAs]
  | int i =>
    cases ty <;> simp [Scalar.fits] at hfit
    simp [Scalar.text, readAs, renderInt_ne_NULL, C09_int_roundtrip i h]
  | str s =>
    cases ty <;> simp [Scalar.fits] at hfit
    simp [Scalar.text, readAs, quote_ne_NULL, C09_unescape s h]

example : (Scalar.str "a'b\\".toList).InScope ∧ (Scalar.str "a'b\\".toList).fits .string := by
  constructor
  · show H_noNul _; decide
  · trivial

-- ================================================================================================
-- the property at full strength (not a theorem of the pinned tree: see the counterexamples above)
-- ================================================================================================

def C09_full_statement : Prop :=
  (∀ (v : Scalar) (ty : ColTy), v.fits ty → (∀ i, v = .int i → inInt64 i) → readAs ty v.text = some v) ∧
  (∀ k : PyKind, k ≠ .tuple → typedRight k (litOf k) = true) ∧
  (∀ k : PyKind, (inferType k).map tyFamily = specType k) ∧
  (∀ form shape, derivedNames form shape = some (specNames form shape)) ∧
  (∀ (cols : List String) (row : List (String × Int)), (row.map (·.1)).Nodup → dictRowCells cols row = specDictRowCells cols row)

end Sqlframe
