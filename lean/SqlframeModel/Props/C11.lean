/-
Props/C11.lean — all actions present the same data (theorems over the C01 DataFrame model).

`d.eval` is what `collect()` returns in the model (C01 relates it to the sequential PySpark result).
Every theorem below holds for *every* DataFrame state satisfying the clause-order invariant `Inv`
(established for every reachable state by `C01_step`), i.e. after any chain of transformations.
-/
import SqlframeModel.Lemmas.C11
import SqlframeModel.Lemmas.C11Tree
import SqlframeModel.Props.C01
import SqlframeModel.Props.C07
namespace Sqlframe
open Gen

/-- `show()` headers: the renaming never produces a duplicate, keeps the arity … -/
theorem C11_unique_nodup (fs : List String) :
    (uniqueFieldNames fs).Nodup ∧ (uniqueFieldNames fs).length = fs.length := by
  refine ⟨uniqueGo_nodup fs 0 [] List.nodup_nil, ?_⟩
  simp [uniqueFieldNames, uniqueGo_length]

/-- … and leaves names alone when they do not repeat. -/
theorem C11_unique_id (fs : List String) (h : fs.Nodup) : uniqueFieldNames fs = fs := by
  simpa [uniqueFieldNames] using uniqueGo_id fs 0 [] (by simpa using h)

/-- `count()` is the number of rows `collect()` returns. -/
theorem C11_count (d : DF) (h : Inv d) : countModel d = some d.eval.rows.length := by
  simp [countModel, countSelectAppend, countWrapsFirst, wrap_eval d h]

/-- **`limit` consults the LIMIT of the statement's outer SELECT and nothing else** (regenerated decision
    `Gen.limitLookup`): whatever CTEs the statement carries, `limit(n)` is the `limit` step of the C01 model. -/
theorem C11_limit_own_block (d : DF) (n : Nat) : d.limit11 n = d.apply (.limit n) := limit11_eq_apply d n

private theorem limit_step (d : DF) (h : Inv d) (k : Nat) :
    (d.limit11 k).eval = d.eval.limit k ∧ Inv (d.limit11 k) := by
  rw [C11_limit_own_block]
  have := C01_step d (.limit k) h trivial (by simp [Step.isOrderBy]) rfl
  exact ⟨this.1, this.2.1⟩

/-- `limit(n).collect()` returns the first n collected rows — for every n and every reachable state. -/
theorem C11_limit (d : DF) (h : Inv d) (n : Nat) : limitRows d n = d.eval.rows.take n := by
  simp [limitRows, (limit_step d h n).1, Table.limit]

/-- an action's LIMIT on an already limited DataFrame: never more rows than the DataFrame holds, never fewer than
    asked for when it holds them (`limit(k)` then `head(n)` / `show(n)` / `limit(n)` = the first `min n k` rows). -/
theorem C11_limit_limit (d : DF) (h : Inv d) (k n : Nat) :
    limitRows (d.limit11 k) n = d.eval.rows.take (min n k) := by
  obtain ⟨he, hi⟩ := limit_step d h k
  rw [C11_limit _ hi, he]
  simp [Table.limit, List.take_take]

/-- `head(n)` / `limit(n).collect()` return the first n collected rows — for every n, 0 included. -/
theorem C11_head (d : DF) (h : Inv d) (n : Nat) : headRows d (some n) = d.eval.rows.take n := by
  have hl : headLimit (some n) = n := by cases n <;> rfl
  simp [headRows, hl, (limit_step d h n).1, Table.limit]

/-- `head()` / `first()` return the first collected row, or nothing. -/
theorem C11_first (d : DF) (h : Inv d) : firstRow d = d.eval.rows.head? := by
  have hl : headLimit none = 1 := rfl
  simp only [firstRow, headRows, hl, (limit_step d h 1).1, Table.limit]
  cases d.eval.rows <;> simp

/-- `isEmpty()` is true exactly when `collect()` returns no row. -/
theorem C11_isEmpty (d : DF) (h : Inv d) : isEmptyModel d = d.eval.rows.isEmpty := by
  have hs := C01_step d (.select [("true", .lit (.bool true))]) h
    (by simp [Step.WF, Expr.refs]) (by simp [Step.isOrderBy]) rfl
  simp only [isEmptyModel]
  rw [C11_first _ hs.2.1, hs.1]
  simp only [specStep, Table.project]
  cases d.eval.rows <;> simp

/-- `show(n)` prints exactly the first n collected rows … -/
theorem C11_show_rows (d : DF) (h : Inv d) (n : Nat) : (showModel d n).2 = d.eval.rows.take n := by
  simp only [showModel]
  cases showWrapsFirst with
  | true =>
    have hw := (wrap_fresh d h).inv
    have hl := limit_step d.wrap hw n
    simp only [if_true]
    rw [hl.1, wrap_eval d h]; rfl
  | false =>
    have hl := limit_step d h n
    simp only [Bool.false_eq_true, if_false]
    rw [hl.1]; rfl

/-- … under distinct headers that equal the column names whenever those do not repeat
    (partial: `H_showNonEmpty` — the real code prints no header at all for an empty result). -/
theorem C11_show_partial (d : DF) (h : Inv d) (n : Nat) (hne : H_showNonEmpty d n = true) :
    (showModel d n).1.Nodup ∧ (showModel d n).1.length = d.eval.cols.length ∧
    (d.eval.cols.Nodup → (showModel d n).1 = d.eval.cols) := by
  -- whichever way `show` is written (wrap first or not), the table it collects is `limit n` of the DataFrame
  have key : ∃ t : Table, (showModel d n) = (if showHeaderNeedsRow && t.rows.isEmpty then [] else uniqueFieldNames t.cols, t.rows)
      ∧ t.cols = d.eval.cols ∧ t.rows = d.eval.rows.take n := by
    simp only [showModel]
    cases showWrapsFirst with
    | true =>
      have hw := (wrap_fresh d h).inv
      have hl := limit_step d.wrap hw n
      refine ⟨(d.wrap.limit11 n).eval, by simp, ?_, ?_⟩
      · rw [hl.1, wrap_eval d h]; rfl
      · rw [hl.1, wrap_eval d h]; rfl
    | false =>
      have hl := limit_step d h n
      refine ⟨(d.limit11 n).eval, by simp, ?_, ?_⟩
      · rw [hl.1]; rfl
      · rw [hl.1]; rfl
  obtain ⟨t, ht, hc, hr⟩ := key
  have hcond : (showHeaderNeedsRow && t.rows.isEmpty) = false := by
    rw [hr]
    simp only [H_showNonEmpty, Bool.or_eq_true, beq_iff_eq, Bool.not_eq_true'] at hne
    rcases hne with h1 | h1 <;> simp [h1]
  rw [ht]
  simp only [hcond, Bool.false_eq_true, if_false]
  refine ⟨(C11_unique_nodup _).1, ?_, ?_⟩
  · rw [(C11_unique_nodup _).2, hc]
  · intro hnd; rw [hc]; exact C11_unique_id _ hnd

/-- counterexample for `H_showNonEmpty`: on the code as it is, `show()` of an empty result has no header -/
theorem C11_cex_showNonEmpty : showHeaderNeedsRow = true →
    (showModel (DF.init { cols := ["x"], rows := [] }) 5).1 = [] := by
  intro h; simp [showModel, h]; decide

/-- `toPandas()` and (DuckDB) `toArrow()` send the very statement list `collect()` sends. -/
theorem C11_same_statements :
    toPandasOptimize = collectOptimize ∧ toArrowUsesCollect = true ∧ firstIsHead = true := by decide

/-- **C11 over whole programs**: for every table and every chain of C01 steps (any length, any
    order) every action agrees with the sequential PySpark result `specRun T steps`. -/
theorem C11_program (T : Table) (steps : List Step) (hT : T.WF) (hs : StepsWF T steps)
    (hsc : noAdjacentOrderBy steps = true) (hin : steps.all Step.inTheorem = true) (n : Nat) :
    let d := (DF.init T).run steps
    let R := specRun T steps
    countModel d = some R.rows.length ∧ isEmptyModel d = R.rows.isEmpty ∧
    firstRow d = R.rows.head? ∧ headRows d (some n) = R.rows.take n ∧ (showModel d n).2 = R.rows.take n ∧
    limitRows d n = R.rows.take n := by
  intro d R
  have he : d.eval = R := C01_partial T steps hT hs hsc hin
  have hi : Inv d := by
    -- the invariant holds after every prefix
    have : ∀ (ss : List Step) (d0 : DF), Inv d0 → StepsWF d0.eval ss → noAdjacentOrderBy ss = true →
        ss.all Step.inTheorem = true →
        ((∃ k rest, ss = Step.orderBy k :: rest) → d0.last ≠ .orderBy) → Inv (d0.run ss) := by
      intro ss
      induction ss with
      | nil => intro d0 h _ _ _ _; exact h
      | cons s rest ih =>
        intro d0 h hwf hadj hall hfirst
        have hall' : s.inTheorem = true ∧ rest.all Step.inTheorem = true := by simpa using hall
        have hno : s.isOrderBy = true → d0.last ≠ .orderBy := by
          intro hso; cases s <;> simp [Step.isOrderBy] at hso
          exact hfirst ⟨_, _, rfl⟩
        obtain ⟨he1, hi1, hl1⟩ := C01_step d0 s h hwf.1 hno hall'.1
        simp only [DF.run, List.foldl_cons]
        apply ih (d0.apply s) hi1 (by rw [he1]; exact hwf.2)
        · cases rest with
          | nil => rfl
          | cons b r => simp [noAdjacentOrderBy] at hadj; exact hadj.2
        · exact hall'.2
        · rintro ⟨k, r, rfl⟩
          apply hl1
          simp [noAdjacentOrderBy, Step.isOrderBy] at hadj
          cases s <;> simp_all [Step.isOrderBy]
    have hf := init_fresh T hT
    exact this steps (DF.init T) hf.inv (by rw [fresh_eval _ hf]; exact hs) hsc hin (fun _ => by simp [DF.init])
  rw [← he]
  exact ⟨C11_count d hi, C11_isEmpty d hi, C11_first d hi, C11_head d hi n, C11_show_rows d hi n, C11_limit d hi n⟩

/-! ### statements that are trees: operands with their own LIMIT / ORDER BY / DISTINCT frozen into CTEs -/

/-- **The actions read the outer SELECT only.**  For every reachable state and *every* list of CTE bodies the
    statement may carry (LIMITs, ORDER BYs, DISTINCTs of earlier steps or of operands of a union — anything), each
    action returns what it returns for the same outer block over the same value with no CTE at all. -/
theorem C11_actions_ignore_ctes (d : DF) (h : Inv d) (ctes : List CteBody) (n : Nat) :
    let d' : DF := { d with hist := ctes }
    countModel d' = countModel d ∧ isEmptyModel d' = isEmptyModel d ∧ firstRow d' = firstRow d ∧
    headRows d' (some n) = headRows d (some n) ∧ limitRows d' n = limitRows d n ∧
    (showModel d' n).2 = (showModel d n).2 := by
  intro d'
  have h' : Inv d' := h
  have e : d'.eval = d.eval := rfl
  rw [C11_count d' h', C11_count d h, C11_isEmpty d' h', C11_isEmpty d h, C11_first d' h', C11_first d h,
    C11_head d' h', C11_head d h, C11_limit d' h', C11_limit d h, C11_show_rows d' h', C11_show_rows d h, e]
  exact ⟨rfl, rfl, rfl, rfl, rfl, rfl⟩

/-- **C11 over tree programs**: base tables, every C01 step kind anywhere (also `orderBy` + `limit` *inside* an
    operand), the five set operations and both modes of `unionByName`, nested to any depth, further steps after the
    combination.  `collect()` is the sequential meaning `Prog.sem`, and every action agrees with it. -/
theorem C11_tree (env : List Table) (p : Prog) (h : p.WF11 env) (n : Nat) :
    let d := p.run11 env
    let R := p.sem env
    d.eval = R ∧ countModel d = some R.rows.length ∧ isEmptyModel d = R.rows.isEmpty ∧
    firstRow d = R.rows.head? ∧ headRows d (some n) = R.rows.take n ∧ limitRows d n = R.rows.take n ∧
    (showModel d n).2 = R.rows.take n := by
  intro d R
  obtain ⟨hi, he, _⟩ := tree_run env p h
  have he' : d.eval = R := he
  rw [← he']
  exact ⟨rfl, C11_count d hi, C11_isEmpty d hi, C11_first d hi, C11_head d hi n, C11_limit d hi n, C11_show_rows d hi n⟩

/-- C07's programs (set operations with where / select / distinct steps) are tree programs, and their sequential
    meaning is PySpark's bag -/
theorem C11_sem_bag (env : List Table) : ∀ p : Prog, p.WF env → p.WF11 env ∧ BagEq (p.sem env) (p.spec env)
  | .base i, h => ⟨h, rfl, List.Perm.refl _⟩
  | .step p s, h => by
    obtain ⟨hw, hb⟩ := C11_sem_bag env p h.1
    refine ⟨⟨hw, by rw [hb.1]; exact h.2.2, fun ho => ?_⟩, specStep_bag _ _ hb s h.2.1⟩
    have := h.2.1; cases s <;> simp_all [Step.isBagStep, Step.isOrderBy]
  | .setop m l r, h => by
    obtain ⟨hwl, hbl⟩ := C11_sem_bag env l h.1
    obtain ⟨hwr, hbr⟩ := C11_sem_bag env r h.2.1
    exact ⟨⟨hwl, hwr, by rw [hbl.1, hbr.1]; exact h.2.2⟩,
      (C07_flags_bag m (l.sem env) (r.sem env)).trans (setSpecTable_bag m hbl hbr)⟩
  | .byName am l r, h => by
    obtain ⟨hwl, hbl⟩ := C11_sem_bag env l h.1
    obtain ⟨hwr, hbr⟩ := C11_sem_bag env r h.2.1
    exact ⟨⟨hwl, hwr, by rw [hbl.1, hbr.1]; exact h.2.2⟩, byNameSpec_bag am hbl hbr⟩

/-- … so on those programs the actions agree with **PySpark's** result (a bag: no order is promised):
    `count()` is its size, `isEmpty()` its emptiness, `head(n)` / `limit(n).collect()` / `show(n)` return
    `min n size` rows, each of which is a row of it. -/
theorem C11_tree_pyspark (env : List Table) (p : Prog) (h : p.WF env) (n : Nat) :
    let d := p.run11 env
    let S := p.spec env
    countModel d = some S.rows.length ∧ isEmptyModel d = S.rows.isEmpty ∧
    (headRows d (some n)).length = min n S.rows.length ∧ (∀ r ∈ headRows d (some n), r ∈ S.rows) ∧
    limitRows d n = headRows d (some n) ∧ (showModel d n).2 = headRows d (some n) := by
  intro d S
  obtain ⟨hw, _, hperm⟩ := C11_sem_bag env p h
  obtain ⟨_, hc, hie, _, hh, hl, hsh⟩ := C11_tree env p hw n
  have hlen : (p.sem env).rows.length = S.rows.length := hperm.length_eq
  refine ⟨by rw [hc, hlen], ?_, by rw [hh, List.length_take, hlen], ?_, by rw [hl, hh], by rw [hsh, hh]⟩
  · rw [hie]
    cases hs : (p.sem env).rows <;> cases hS : S.rows <;> simp_all
  · intro r hr
    rw [hh] at hr
    exact hperm.mem_iff.mp (List.mem_of_mem_take hr)

/-- the decision matters: the same program under the other lookup rule.  `top1 = t0.orderBy(id desc).limit(1)`,
    `u = top1.union(t1).orderBy(id)` has 3 rows; `u.limit(3)` keeps 3 when `limit` reads the outer SELECT and 1 when it
    picks up the LIMIT of `top1`'s CTE. -/
def cexEnv11 : List Table :=
  [{ cols := ["id"], rows := [[.int 1], [.int 2], [.int 3]] }, { cols := ["id"], rows := [[.int 10], [.int 11]] }]
def cexProg11 : Prog :=
  .step (.setop .union (.step (.step (.base 0) (.orderBy [{ name := "id", desc := true }])) (.limit 1)) (.base 1))
    (.orderBy [{ name := "id" }])

theorem C11_limit_scope_matters :
    cexProg11.WF11 cexEnv11 ∧
    (cexProg11.run11 cexEnv11).eval.rows.length = 3 ∧
    ((cexProg11.run11 cexEnv11).limitWith .ownBlock 3).eval.rows.length = 3 ∧
    ((cexProg11.run11 cexEnv11).limitWith .wholeTree 3).eval.rows.length = 1 := by decide

/-! ### non-vacuity and the repaired witness -/
example : histLimits (cexProg11.run11 cexEnv11).hist = [1] := by decide
example : foundLimitWith .wholeTree (cexProg11.run11 cexEnv11) = some 1 ∧
    foundLimitWith .ownBlock (cexProg11.run11 cexEnv11) = none := by decide
example : (Prog.setop .union (.base 0) (.base 1)).WF cexEnv11 := by decide
example : uniqueFieldNames ["a_2", "a", "a"] = ["a_2", "a", "a_2_2"] := by decide
example : uniqueFieldNames ["x", "s", "x", "y"] = ["x", "s", "x_2", "y"] := by decide
example : let d := (DF.init exTable).run exSteps
    countModel d = some 1 ∧ isEmptyModel d = false ∧ headRows d (some 0) = [] := by decide

/-- full statement: additionally toPandas()/toArrow() *values* (pandas/arrow conversion is the
    driver's), the printed text of `show` (PrettyTable's), and non-interference between actions (C04)
    — those parts are compared executably by the correspondence stream, not proved. -/
def C11_full_statement : Prop :=
  ∀ (T : Table) (steps : List Step) (n : Nat), T.WF → StepsWF T steps →
    let d := (DF.init T).run steps
    countModel d = some (specRun T steps).rows.length ∧ headRows d (some n) = (specRun T steps).rows.take n

end Sqlframe
