/-
Props/C02.lean — property theorems for C02 (joins return PySpark's rows and PySpark's output column list).

Model: Impl/C02Join.lean (one join: assumed SQL semantics, PySpark's specification, the list code of
`BaseDataFrame.join` / `_resolve_ambiguous_columns` around the regenerated `Gen.Joins`) and Impl/C02Prog.lean
(whole programs: `runImpl`, `runSpec`, named scope hypotheses).  Full statement vs what is proved: bottom of the file.
-/
import SqlframeModel.Lemmas.C02
import SqlframeModel.Lemmas.C02Ctes
set_option linter.unusedSimpArgs false
namespace Sqlframe
open Gen

/-! ### `how` -/

/-- the documented spellings of `how` -/
def spellings : List String := specKindTable.map (·.1)

/-- With a condition given, every documented spelling — inner, cross, outer, full, fullouter, full_outer, left,
    leftouter, left_outer, right, rightouter, right_outer, semi, leftsemi, left_semi, anti, leftanti, left_anti —
    goes through the two rewrites, JOIN_TYPE_MAPPING and `.replace("_", " ")` to the join type string of the
    join PySpark performs (cross with a condition = inner), and the engine reads that string as that join. -/
theorem C02_how : ∀ h ∈ spellings,
    (specKindOf h).map (fun k => (specKindWithOn k).jt) = some (joinTypeFor false h) ∧
    normaliseHow false h = (specKindOf h).map specKindWithOn := by decide

/-- the documented spellings are read by the specification as documented -/
theorem C02_spec_table : ∀ p ∈ specKindTable, specKindOf p.1 = some p.2 := by decide

/-- **every string.** Whatever string PySpark accepts as `how` — any mix of upper and lower case, underscores anywhere
    (`'LeftSemi'`, `'RIGHT'`, `'Left_Outer'`, `'FULL_outer'`, …), not only the 18 documented spellings — `join` (with a
    condition) turns into the join-type string of the join PySpark performs.  `preHow` is regenerated from the first
    statement of `join`; without it this fails for `'LeftSemi'` (see `fixed:` entry 2f40f15). -/
theorem C02_how_all (h : String) (k : JoinKind) (hk : specKindOf h = some k) :
    joinTypeFor false h = (specKindWithOn k).jt ∧ normaliseHow false h = some (specKindWithOn k) := by
  have hpre : preHow h = specCanon h := rfl
  have key : ∀ p ∈ specKindCanon,
      joinTypeOf (rewriteArgsCore false p.1).2 = (specKindWithOn p.2).jt ∧
      kindOfJoinType (joinTypeOf (rewriteArgsCore false p.1).2) = some (specKindWithOn p.2) := by decide
  unfold specKindOf at hk
  cases hf : specKindCanon.find? (·.1 = specCanon h) with
  | none => rw [hf] at hk; simp at hk
  | some p =>
    rw [hf] at hk
    have hp2 : p.2 = k := by simpa using hk
    have hmem := List.mem_of_find?_eq_some hf
    have hp1 : p.1 = specCanon h := by simpa using List.find?_some hf
    have := key p hmem
    unfold normaliseHow joinTypeFor rewriteHow rewriteArgs
    rw [hpre, ← hp1, ← hp2]
    exact this

/-- PySpark rejects exactly the strings whose canonical form is not one of the 13 names; non-vacuity of `C02_how_all`
    on spellings outside the documented table -/
example : specKindOf "LeftSemi" = some .leftSemi ∧ specKindOf "RIGHT" = some .rightOuter ∧
    specKindOf "Left_Outer" = some .leftOuter ∧ specKindOf "FULL_outer" = some .fullOuter ∧
    specKindOf "l_e_f_t" = some .leftOuter ∧ specKindOf "left outer" = none := by decide

theorem C02_jt_kind : ∀ k : JoinKind, kindOfJoinType k.jt = some k := by intro k; cases k <;> rfl

/-- `crossJoin` is a join with no condition whose type the engine reads as CROSS -/
theorem C02_crossJoin : normaliseHow true crossJoinHow = some .cross := by decide

/-- Without a condition (`on=None`), under the named hypothesis `onNoneOk` (H_onNoneInnerOrCross: the rewrites keep the
    join type with an always-true condition, or the join is inner/cross), the join `join` performs has exactly the
    pairs of PySpark's join of that kind with the condition TRUE. -/
theorem C02_on_none : ∀ h ∈ spellings, onNoneOk h = true →
    ∀ k ∈ normaliseHow true h, ∀ k' ∈ specKindOf h, ∀ (ls rs : List Row),
      joinPairs k (fun _ _ => true) ls rs = joinPairs k' (fun _ _ => true) ls rs := by
  have key : ∀ h ∈ spellings, onNoneOk h = true →
      ∀ k ∈ normaliseHow true h, ∀ k' ∈ specKindOf h, k = k' ∨ (k = .cross ∧ k' = .inner) := by decide
  intro h hh hok k hk k' hk' ls rs
  rcases key h hh hok k hk k' hk' with rfl | ⟨rfl, rfl⟩
  · rfl
  · exact joinPairs_cross _ ls rs

/-! ### output column list -/

/-- **name-joins.** For ALL pairs of schemas and every key list present on both sides, the select list `join` builds
    has exactly PySpark's names in PySpark's order: keys first, then the left columns without the keys, then (unless
    semi/anti) the right columns without the keys — only the keys are de-duplicated.  Holds for every join table list
    the names are later resolved against. -/
theorem C02_cols_name (kind : JoinKind) (tables : List (Name × List Name)) (lt rt : Name)
    (Lc Rc keys : List Name) (hL : Lc.Nodup) (hR : Rc.Nodup) (hr : RenderOK (Lc ++ Rc) keys) :
    (resolveArgs tables [] (nameJoinArgs kind.jt Lc Rc (keys.map (fun k => (k, lt, rt))))).map (·.1) =
      (joinSpecNames kind keys { cols := Lc, rows := [] } { cols := Rc, rows := [] }).cols := by
  rw [resolveArgs_names, gen_nameJoinArgs kind Lc Rc _ (by
      rw [pairs_keys, gen_selectColumns]
      exact hr.mono (fun c hc => by cases kind <;> simp_all [JoinKind.keepsRight])),
    gen_selectColumns, pairs_keys]
  simp only [joinSpecNames, List.map_append, List.map_map, Function.comp_def]
  rw [restCols_eq_filter _ _ hL, restCols_eq_filter _ _ hR]
  have hk : (keys.map (fun k => (keyArg kind.jt ((k, lt, rt) : KeyPair)).outName)) = keys := by
    rw [show (fun k => (keyArg kind.jt ((k, lt, rt) : KeyPair)).outName) = id from by
      funext k; rw [gen_keyArg]; cases kind <;> simp [SelArg.outName]]
    simp
  rw [hk]
  cases kind <;> simp [JoinKind.keepsRight, SelArg.outName, List.filter_append]

/-- **expression joins / cross joins.** Left columns then right columns, duplicates kept; left columns only for semi/anti. -/
theorem C02_cols_expr (kind : JoinKind) (tables : List (Name × List Name)) (Lc Rc : List Name) (cond : Row → Row → Bool) :
    (resolveArgs tables [] (exprJoinArgs kind.jt Lc Rc)).map (·.1) =
      (joinSpecExpr kind cond { cols := Lc, rows := [] } { cols := Rc, rows := [] }).cols := by
  rw [resolveArgs_names, gen_exprJoinArgs]
  cases kind <;> simp [joinSpecExpr, JoinKind.keepsRight, SelArg.outName, Function.comp_def]

/-- **semi / anti.** Only the left side's columns survive, in both branches. -/
theorem C02_cols_semi_anti (kind : JoinKind) (hk : kind = .leftSemi ∨ kind = .leftAnti) (tables : List (Name × List Name))
    (lt rt : Name) (Lc Rc keys : List Name) (hr : RenderOK Lc keys) :
    (resolveArgs tables [] (nameJoinArgs kind.jt Lc Rc (keys.map (fun k => (k, lt, rt))))).map (·.1) = keys ++ Lc.filter (· ∉ keys) ∧
    (resolveArgs tables [] (exprJoinArgs kind.jt Lc Rc)).map (·.1) = Lc := by
  constructor
  · rw [resolveArgs_names, gen_nameJoinArgs kind Lc Rc _ (by
        rw [pairs_keys, gen_selectColumns]
        exact hr.mono (fun c hc => by rcases hk with rfl | rfl <;> simpa [JoinKind.keepsRight] using hc)),
      gen_selectColumns, pairs_keys]
    have hk' : (keys.map (fun k => (keyArg kind.jt ((k, lt, rt) : KeyPair)).outName)) = keys := by
      rw [show (fun k => (keyArg kind.jt ((k, lt, rt) : KeyPair)).outName) = id from by
        funext k; rw [gen_keyArg]; rcases hk with rfl | rfl <;> simp [SelArg.outName]]
      simp
    simp only [List.map_append, List.map_map, Function.comp_def, hk']
    rcases hk with rfl | rfl <;> simp [JoinKind.keepsRight, SelArg.outName]
  · rw [resolveArgs_names, gen_exprJoinArgs]
    rcases hk with rfl | rfl <;> simp [JoinKind.keepsRight, SelArg.outName, Function.comp_def]

/-! ### rows -/

/-- **name-joins, rows and columns.** For two frozen inputs `L`, `R` (well-formed, key names on both sides) the block
    `join` builds — FROM l JOIN r ON l.k1 = r.k1 AND …, select list resolved by `_resolve_ambiguous_columns` —
    evaluates (Core/Sql + `joinTables`) to exactly PySpark's `L.join(R, keys, how)`: for all six kinds, key from the
    left (right for a right join, COALESCE(l.k, r.k) for a full join), NULL keys never matching.
    Scope: `QualOK` (the qualified FROM-clause names are distinct) and H_reversedWalkDupNames (`NoRightCollision`). -/
theorem C02_rows_name (kind : JoinKind) (hk : kind ≠ .cross) (lt rt : Name) (keys : List Name) (L R : Table)
    (hL : L.WF) (hR : R.WF) (hkn : keys.Nodup) (hne : keys ≠ [])
    (hkL : ∀ k ∈ keys, k ∈ L.cols) (hkR : ∀ k ∈ keys, k ∈ R.cols)
    (hq : QualOK lt rt L.cols R.cols) (hcoll : NoRightCollision kind L.cols R.cols keys)
    (hr : RenderOK (L.cols ++ R.cols) keys) :
    ∃ d, joinDFNames kind.jt kind lt rt keys L R = some d ∧ d.last = .from_ ∧ d.eval = joinSpecNames kind keys L R := by
  simp only [joinDFNames, gen_keyPairs lt rt L.cols keys hkL]
  refine ⟨_, rfl, rfl, ?_⟩
  simp only [DF.eval]
  rw [evalBlock_sel_only, nameJoin_items kind hk lt rt L.cols R.cols keys hL.1 hR.1 hkn hkL hkR hcoll hr]
  simp only [joinSpecNames]
  congr 1
  · -- column names
    simp only [List.map_append, List.map_map, Function.comp_def, keyItem_fst, List.map_id']
    rw [restCols_eq_filter _ _ hL.1, restCols_eq_filter _ _ hR.1]
    cases kind <;> simp [JoinKind.keepsRight, Function.comp_def]
  · -- rows
    simp only [joinTables, List.map_map]
    have hm : joinPairs kind (fun l r => onHolds ((qtable lt L).cols ++ (qtable rt R).cols)
          (nameJoinOn (keys.map (fun k => ((k, lt, rt) : KeyPair)))) (l ++ r)) (qtable lt L).rows (qtable rt R).rows
        = joinPairs kind (keyMatch L.cols R.cols keys) L.rows R.rows :=
      joinPairs_congr kind _ _ L.rows R.rows (fun l hl r _ =>
        nameJoin_match lt rt keys L R hq hne hkL hkR l r (hL.2 l hl))
    rw [hm]
    apply List.map_congr_left
    intro p hp
    have hmem := joinPairs_mem kind _ L.rows R.rows p hp
    have hnr : kind.keepsRight = false → p.2 = none := fun h => joinPairs_noRight kind h _ _ _ p hp
    have := nameJoin_row kind lt rt keys L R hL hR hq hkL hkR p hmem.1 hmem.2 hnr
    simp only [Function.comp_def, qtable, List.length_map] at this ⊢
    exact this


/-- **expression joins and cross joins, rows and columns.** The block evaluates to PySpark's join under the same
    condition: every pair the SQL join produces, flattened, left columns then right columns. -/
theorem C02_rows_expr (kind : JoinKind) (lt rt : Name) (on : Option Expr) (L R : Table)
    (hL : L.WF) (hR : R.WF) (hq : QualOK lt rt L.cols R.cols) (hcoll : NoRightCollision kind L.cols R.cols []) :
    (joinDFExpr kind.jt kind lt rt on L R).last = .from_ ∧
    (joinDFExpr kind.jt kind lt rt on L R).eval =
      joinSpecExpr kind (fun l r => onHolds ((qtable lt L).cols ++ (qtable rt R).cols) on (l ++ r)) L R := by
  refine ⟨rfl, ?_⟩
  simp only [joinDFExpr, DF.eval]
  rw [evalBlock_sel_only, exprJoin_items kind lt rt L.cols R.cols hL.1 hR.1 hcoll]
  simp only [joinSpecExpr]
  congr 1
  · cases kind <;> simp [JoinKind.keepsRight, Function.comp_def]
  · simp only [joinTables, List.map_map]
    apply List.map_congr_left
    intro p hp
    have hmem := joinPairs_mem kind _ L.rows R.rows p hp
    have := exprJoin_row kind lt rt L R hL hR hq p hmem.1 hmem.2
    simp only [Function.comp_def, qtable, List.length_map] at this ⊢
    exact this

/-- NULL keys never match under `=` … -/
theorem C02_null_never_matches (lc rc keys : List Name) (l r : Row) (k : Name) (hk : k ∈ keys)
    (hn : lookup lc l k = .null ∨ lookup rc r k = .null) : keyMatch lc rc keys l r = false := by
  simp only [keyMatch, List.all_eq_false]
  refine ⟨k, hk, ?_⟩
  rcases hn with h | h <;> simp [h, eqTrue, binSem, cmpSem, isTrue] <;> cases lookup lc l k <;> simp [cmpSem]

/-- … and match under the null-safe operator (`eqNullSafe`, IS NOT DISTINCT FROM): it is plain equality of values -/
theorem C02_null_safe (env : List Name) (row : Row) (a b : Expr) :
    isTrue (eval env row (.bin .nseq a b)) = decide (eval env row a = eval env row b) := by
  simp [eval, binSem, isTrue]

/-- the key column of a full-outer name-join is COALESCE(l.k, r.k) -/
theorem C02_coalesce_key (lt rt : Name) (L R : Table) (hq : QualOK lt rt L.cols R.cols) (k : Name)
    (hkL : k ∈ L.cols) (hkR : k ∈ R.cols) (l r : Row) (hl : l.length = L.cols.length) :
    eval ((qtable lt L).cols ++ (qtable rt R).cols) (l ++ r) (keyItem .fullOuter lt rt k).2 =
      coalesce2 (lookup L.cols l k) (lookup R.cols r k) := by
  simp only [keyItem, coalesce_eval, qtable]
  rw [hq.left l r k hkL hl, hq.right l r k hkR hl]

/-- In a block that already has joins, the left operand of a further name-join's ON clause is the left-most joined table
    that has the key (`_handle_join_column_names_only` scans the candidates left to right and stops at the first): for
    chains of inner / left joins that is the table PySpark's de-duplicated key comes from. -/
theorem C02_chain_key_leftmost (a : Name) (Ca : List Name) (rest : List (Name × List Name)) (r k : Name) (hk : k ∈ Ca) :
    keyPairs ((a, Ca) :: rest) r [k] = some [(k, a, r)] := by
  simp [keyPairs, keyLeftmostFirst, keyLookupRender, Render.apply, List.find?, hk]

/-! ### names that need quoting -/

/-- **every name.** The de-duplication of the name-join branch compares a select column with the keys through the
    renderings the source uses on the two sides of `not in` (regenerated: `selectNameRender`, `keyNameRender`,
    `dedupKeyRender`).  With the renderings of the pinned tree a column is dropped exactly when it is a key — also for
    names that are rendered quoted (`order id`, `user-id`): for ALL name lists without a backtick. -/
theorem C02_dedup_any_name (jt : String) (lt rt : Name) (cols keys : List Name)
    (hc : ∀ c ∈ cols, NoBacktick c) (hk : ∀ k ∈ keys, NoBacktick k) :
    cols.filter (fun c => selectNameRender.apply c ∉ dedupKeyNames jt (keys.map (fun k => ((k, lt, rt) : KeyPair)))) =
      cols.filter (fun c => c ∉ keys) := by
  apply List.filter_congr
  intro c hcm
  have hr : ∀ k ∈ (keys.map (fun k => ((k, lt, rt) : KeyPair))).map (·.1), quoteName c = quoteName k → c = k := by
    rw [pairs_keys]; exact fun k hkm => quoteName_inj c k (hc c hcm) (hk k hkm)
  have := gen_dedup_test jt (keys.map (fun k => ((k, lt, rt) : KeyPair))) c hr
  rw [pairs_keys] at this
  by_cases h : c ∈ keys
  · simp [h, this.mpr h]
  · have h' : ¬ (selectNameRender.apply c ∈ dedupKeyNames jt (keys.map (fun k => ((k, lt, rt) : KeyPair)))) := fun x => h (this.mp x)
    simp [h, h']

/-- the scope hypothesis `RenderOK` of the column / row theorems holds for all backtick-free names -/
theorem C02_render_ok (cols keys : List Name) (hc : ∀ c ∈ cols, NoBacktick c) (hk : ∀ k ∈ keys, NoBacktick k) :
    RenderOK cols keys := renderOK_of_noBacktick cols keys hc hk

/-- why both sides must use one rendering: a quoted rendering is never equal to the plain name (so comparing
    `Column.alias_or_name` with `expression.alias_or_name` keeps every key that needs quotes) -/
theorem C02_render_mixed (n : Name) (hq : needsQuote n = true) (hb : NoBacktick n) : Render.quoted.apply n ≠ Render.plain.apply n := by
  intro h
  simp only [Render.apply, quoteName, hq, if_true] at h
  apply hb
  rw [← h]
  simp [String.toList_append, bt_toList]

example : needsQuote "order id" = true ∧ needsQuote "user-id" = true ∧ needsQuote "k" = false ∧ needsQuote "1st" = false ∧
    quoteName "order id" = "`order id`" ∧ quoteName "cust_id" = "cust_id" := by decide

/-! ### stars -/

/-- `t.*` becomes the columns of the CTE t *qualified with t* (`Gen.starQualifiedByCte`) … -/
theorem C02_star_items (t : Name) (cols : List Name) :
    toExprs ((starQ t cols).map (·.2)) = some (cols.map (fun c => Expr.col (qual t c))) ∧ (starQ t cols).map (·.1) = cols := by
  constructor
  · induction cols with
    | nil => rfl
    | cons c cs ih =>
      simp only [starQ, List.map_cons, List.map_map, Function.comp_def, starQualifiedByCte, if_true] at ih ⊢
      simp only [toExprs, QExpr.toExpr, ih]
  · simp [starQ, Function.comp_def]

/-- … so that on a join block the star of the RIGHT table is exactly the right half of every joined row (NULLs for a
    left row without a match), whatever names the two sides share — and the star of the LEFT table the left half.
    For every kind that keeps the right side, every condition, all well-formed inputs with distinct qualified names. -/
theorem C02_star_right (kind : JoinKind) (hk : kind.keepsRight = true) (lt rt : Name) (on : Option Expr) (L R : Table)
    (hL : L.WF) (hR : R.WF) (hq : QualOK lt rt L.cols R.cols) :
    evalBlock { sel := R.cols.zip (R.cols.map (fun c => Expr.col (qual rt c))) } (joinTables kind on (qtable lt L) (qtable rt R)) =
      { cols := R.cols,
        rows := (joinPairs kind (fun l r => onHolds ((qtable lt L).cols ++ (qtable rt R).cols) on (l ++ r)) L.rows R.rows).map
          (fun p => p.2.getD (nulls R.cols.length)) } := by
  rw [evalBlock_sel_only]
  have hz : R.cols.zip (R.cols.map (fun c => Expr.col (qual rt c))) = R.cols.map (fun c => (c, Expr.col (qual rt c))) := by
    induction R.cols with
    | nil => rfl
    | cons c cs ih => simp [ih]
  rw [hz]
  congr 1
  · simp [Function.comp_def]
  · simp only [joinTables, hk, if_true, List.map_map]
    apply List.map_congr_left
    intro p hp
    have hmem := joinPairs_mem kind _ L.rows R.rows p hp
    have hll := side_len L hL p.1 hmem.1
    have hrl := side_len R hR p.2 hmem.2
    simp only [Function.comp_def, Pair.flat, hk, if_true, qtable, List.length_map, eval]
    exact (List.map_congr_left (fun c hc => hq.right _ _ c hc hll)).trans (map_lookup_self R.cols _ hR.1 hrl)

theorem C02_star_left (kind : JoinKind) (hk : kind.keepsRight = true) (lt rt : Name) (on : Option Expr) (L R : Table)
    (hL : L.WF) (hq : QualOK lt rt L.cols R.cols) :
    evalBlock { sel := L.cols.zip (L.cols.map (fun c => Expr.col (qual lt c))) } (joinTables kind on (qtable lt L) (qtable rt R)) =
      { cols := L.cols,
        rows := (joinPairs kind (fun l r => onHolds ((qtable lt L).cols ++ (qtable rt R).cols) on (l ++ r)) L.rows R.rows).map
          (fun p => p.1.getD (nulls L.cols.length)) } := by
  rw [evalBlock_sel_only]
  have hz : L.cols.zip (L.cols.map (fun c => Expr.col (qual lt c))) = L.cols.map (fun c => (c, Expr.col (qual lt c))) := by
    induction L.cols with
    | nil => rfl
    | cons c cs ih => simp [ih]
  rw [hz]
  congr 1
  · simp [Function.comp_def]
  · simp only [joinTables, hk, if_true, List.map_map]
    apply List.map_congr_left
    intro p hp
    have hmem := joinPairs_mem kind _ L.rows R.rows p hp
    have hll := side_len L hL p.1 hmem.1
    simp only [Function.comp_def, Pair.flat, hk, if_true, qtable, List.length_map, eval]
    exact (List.map_congr_left (fun c hc => hq.left _ _ c hc hll)).trans (map_lookup_self L.cols _ hL.1 hll)

/-- non-vacuity: a left join whose sides share `k` AND `v`; the right star has the right values and the NULLs of the
    unmatched left rows (with bare names it would read the left `k`, `v`) -/
example : evalBlock { sel := ["k", "v"].zip (["k", "v"].map (fun c => Expr.col (qual "b" c))) }
      (joinTables .leftOuter (some (.bin .eq (.col "a.k") (.col "b.k")))
        (qtable "a" { cols := ["k", "v"], rows := [[.int 1, .int 10], [.int 2, .int 20]] })
        (qtable "b" { cols := ["k", "v"], rows := [[.int 2, .int 7]] })) =
    { cols := ["k", "v"], rows := [[.int 2, .int 7], [.null, .null]] } := by decide

/-- **`select('*')` on a join block.**  A bare star is expanded to the block's output names BEFORE `_resolve_ambiguous_columns`
    runs (`Gen.expandBeforeResolve`, `Gen.starPlainFromSelect`), so every name goes to the table `join` itself sent it to when
    it built the block: same walk order, same left-to-right counting of repeated names — the n-th `k` is the n-th table's `k`. -/
theorem C02_star_plain (s : Sess) (d : SDF) (hj : d.joins.isEmpty = false) :
    (ensureNormItems s d [.star]).bind (fun nqs => toExprs (nqs.map (·.2))) =
      some ((resolveArgs d.walkTables [] ((d.sel.map (·.1)).map .name)).map (·.2)) ∧
    (ensureNormItems s d [.star]).map (fun nqs => nqs.map (·.1)) = some (d.sel.map (·.1)) := by
  have hex : ensureNormItems s d [.star] =
      some ((d.sel.map (·.1)).zip (resolveAllQ d.walkTables [] ((d.sel.map (·.1)).map (fun n => QExpr.col none n none)))) := by
    simp only [ensureNormItems, normalizeItems, expandBeforeResolve, if_true, expandItems, expandItem, starPlainFromSelect,
      List.append_nil, Option.map, SDF.resolveAmbiguous, hj, Bool.false_eq_true, if_false, List.map_map, Function.comp_def]
  have hlen : ∀ (t : List (Name × List Name)) (b : List Name) (qs : List QExpr), (resolveAllQ t b qs).length = qs.length := by
    intro t b qs
    induction qs generalizing b with
    | nil => rfl
    | cons q qs ih => simp [resolveAllQ, ih]
  rw [hex]
  constructor
  · simp only [Option.bind]
    rw [List.map_snd_zip (by rw [hlen]; simp)]
    exact resolveAllQ_bare _ _ _
  · simp only [Option.map]
    rw [List.map_fst_zip (by rw [hlen]; simp)]

/-- **display names after a select with stars.** The positions of the star arguments are removed from the two lists
    `_update_display_name_mapping` zips in the generated order (`Gen.starPopsBackToFront`): what is left are exactly the
    non-star arguments, each with its own spelling — for every argument list (any number of stars, anywhere). -/
theorem C02_star_pop (items : List SItem) :
    popSeq (if starPopsBackToFront then (idxOf SItem.isStar items).reverse else idxOf SItem.isStar items) (items.map sitemDisplay) =
      some ((items.filter (fun it => !it.isStar)).map sitemDisplay) := by
  simp only [starPopsBackToFront, if_true]
  rw [popSeq_map, popSeq_back_to_front]
  rfl

/-- front to back it goes wrong as soon as a star is followed by anything: `select(a['*'], 'V', b['*'])` -/
example : popSeq (idxOf SItem.isStar [.starDf 0, .col "v" "V" (.ref (.name "v")), .starDf 1])
      ([SItem.starDf 0, .col "v" "V" (.ref (.name "v")), .starDf 1].map sitemDisplay) = none := by decide

/-! ### merging the WITH clauses -/

/-- **`_add_ctes_to_expression` preserves every CTE's value.**  For every interpretation of the query operators, every
    catalog, every left WITH clause `E` and every right WITH clause `R` that meet `MergeOK` (the right side's names are
    distinct, its reads go backwards or to catalog names no left CTE shadows, the new names are fresh): in the merged
    clause every left CTE keeps its value, the names are the left names followed by the right names under one renaming `ρ`,
    and the CTE that took the place of each right CTE has the value that CTE had in its own statement.  The loop's
    decisions (earlier renames applied before the name test, rename recorded under the old name) are `Gen.JoinMerge`'s. -/
theorem C02_merge_preserves (I : Interp) (base : Env) (gen : Nat → Name) (E R : List NCte) (h : MergeOK gen E R) :
    (∀ n ∈ E.map (·.name), withEnv I base (mergeCtes gen E R) n = withEnv I base E n) ∧
    ∃ ρ : Name → Name,
      (mergeCtes gen E R).map (·.name) = E.map (·.name) ++ R.map (fun c => ρ c.name) ∧
      ∀ c ∈ R, withEnv I base (mergeCtes gen E R) (ρ c.name) = withEnv I base R c.name := by
  have inv := mergeFold_inv I base gen E (R.map (·.name)) R.length (fun i j hi hj e => h.geninj i hi j hj e)
    (fun i hi => (h.fresh i hi).1) (fun i hi => (h.fresh i hi).2.1) R [] (mergeInit E) (minv_init I base gen E)
    (by intro p hp; simp at hp) (fun c hc => List.mem_map.mpr ⟨c, hc, rfl⟩) (by simpa using h.rnodup)
    (by simpa using h.closed) (by simp) (fun i hi c hc => (h.fresh i hi).2.2 c hc)
  simp only [List.nil_append] at inv
  refine ⟨inv.evals, renameName (R.foldl (mergeStep gen) (mergeInit E)).ren, inv.names, ?_⟩
  intro c hc
  exact inv.vals c.name (List.mem_map.mpr ⟨c, hc, rfl⟩)

/-- two statements that both call their staging CTE `src` (different contents), the right one reading it from a second CTE -/
def mergeE : List NCte := [{ name := "src", body := .lit { cols := ["k"], rows := [[.int 1]] } }, { name := "lhs", body := .un 0 (.ref "src") }]
def mergeR : List NCte := [{ name := "src", body := .lit { cols := ["k"], rows := [[.int 2]] } }, { name := "stg", body := .un 0 (.ref "src") },
                           { name := "rhs", body := .bin 0 (.ref "stg") (.ref "src") }]
def mergeGen : Nat → Name := fun k => ["#0", "#1", "#2"].getD k ""
def idInterp : Interp := { un := fun _ T => T, bin := fun _ T _ => T }

instance (En Rn : List Name) : ∀ (earlier : List Name) (cs : List NCte), Decidable (ClosedFrom En Rn earlier cs)
  | _, [] => Decidable.isTrue trivial
  | earlier, c :: cs =>
    have := instDecidableClosedFrom En Rn (earlier ++ [c.name]) cs
    by unfold ClosedFrom; exact inferInstance

/-- non-vacuity: the hypotheses hold there, the clashing CTE is renamed, the later CTEs follow it, and they keep the RIGHT data -/
example : MergeOK mergeGen mergeE mergeR :=
  { rnodup := by decide, geninj := by decide, fresh := by decide, closed := by decide }

example : (mergeCtes mergeGen mergeE mergeR).map (fun c => (c.name, c.body.refs)) =
    [("src", []), ("lhs", ["src"]), ("#0", []), ("stg", ["#0"]), ("rhs", ["stg", "#0"])] ∧
    withEnv idInterp (fun _ => none) (mergeCtes mergeGen mergeE mergeR) "rhs" = some { cols := ["k"], rows := [[.int 2]] } := by decide

/-- the rename has to be recorded under the OLD name: recorded under the new name (the alias read after it was replaced) the
    later CTEs of the right side keep reading the LEFT side's CTE of that name — same inputs, the value is the left data -/
theorem C02_cex_mergeKeyNew :
    withEnv idInterp (fun _ => none) (mergeCtesF { renamesBeforeTest := true, keyIsOldName := false, recordsNewName := true } mergeGen mergeE mergeR) "rhs"
      = some { cols := ["k"], rows := [[.int 1]] } ∧
    withEnv idInterp (fun _ => none) mergeR "rhs" = some { cols := ["k"], rows := [[.int 2]] } := by decide

/-- … and the recorded renames have to reach every later CTE before its own name is tested -/
theorem C02_cex_mergeNoRenames :
    withEnv idInterp (fun _ => none) (mergeCtesF { renamesBeforeTest := false, keyIsOldName := true, recordsNewName := true } mergeGen mergeE mergeR) "rhs"
      ≠ withEnv idInterp (fun _ => none) mergeR "rhs" := by decide

/-! ### chains: a join result re-enters the C01 world -/

/-- Any block with distinct output names — in particular the join blocks above, whose `last_op` is FROM — once frozen by
    `_convert_leaf_to_cte` (what a following `select().where()`, `limit().where()` or the wrapper of another join does)
    is a C01 state: it satisfies C01's clause-order invariant `Inv` (Lemmas/C01Wrap.lean) with its stale `last_op = FROM`
    and evaluates to the same table.  `Inv` is the only hypothesis of C01's chain theorem (`C01_run`), so every C01 chain
    of where / select / withColumn / … steps applied after it evaluates to PySpark's sequential result on that table. -/
theorem C02_chain (d : DF) (T : Table) (he : d.eval = T) (hl : d.last = .from_)
    (hs : (d.blk.sel.map (·.1)).Nodup) :
    Inv d.wrap ∧ d.wrap.last = .from_ ∧ d.wrap.eval = T := by
  have hf : Fresh d.wrap := ⟨evalBlock_WF d.blk d.src hs, rfl, rfl, rfl, rfl, rfl⟩
  exact ⟨hf.inv, hl, by rw [fresh_eval d.wrap hf]; exact he⟩

/-- name-join then freeze: when the non-key names of the two sides do not collide, the frozen join result is a C01
    state (invariant, `last_op = FROM`) whose value is PySpark's join -/
theorem C02_chain_name (kind : JoinKind) (hk : kind ≠ .cross) (lt rt : Name) (keys : List Name) (L R : Table)
    (hL : L.WF) (hR : R.WF) (hkn : keys.Nodup) (hne : keys ≠ [])
    (hkL : ∀ k ∈ keys, k ∈ L.cols) (hkR : ∀ k ∈ keys, k ∈ R.cols)
    (hq : QualOK lt rt L.cols R.cols) (hcoll : NoRightCollision kind L.cols R.cols keys)
    (hr : RenderOK (L.cols ++ R.cols) keys)
    (hnd : (joinSpecNames kind keys L R).cols.Nodup) :
    ∃ d, joinDFNames kind.jt kind lt rt keys L R = some d ∧
      Inv d.wrap ∧ d.wrap.last = .from_ ∧ d.wrap.eval = joinSpecNames kind keys L R := by
  obtain ⟨d, hd, hlast, he⟩ := C02_rows_name kind hk lt rt keys L R hL hR hkn hne hkL hkR hq hcoll hr
  refine ⟨d, hd, ?_⟩
  have hs : (d.blk.sel.map (·.1)).Nodup := by
    have : (d.eval).cols = d.blk.sel.map (·.1) := by simp [DF.eval, evalBlock]
    rw [← this, he]; exact hnd
  exact C02_chain d _ he hlast hs

/-! ### what is proved, in one statement -/

/-- **C02 (proved part)** for one join of two frozen, well-formed inputs whose qualified names are distinct:
    every documented spelling with a key list gives PySpark's table. -/
theorem C02_partial (h : String) (hh : h ∈ spellings) (lt rt : Name) (keys : List Name) (L R : Table)
    (hL : L.WF) (hR : R.WF) (hkn : keys.Nodup) (hne : keys ≠ [])
    (hkL : ∀ k ∈ keys, k ∈ L.cols) (hkR : ∀ k ∈ keys, k ∈ R.cols)
    (hq : QualOK lt rt L.cols R.cols) (hr : RenderOK (L.cols ++ R.cols) keys) :
    ∃ kind, specKindOf h = some kind ∧
      (NoRightCollision (specKindWithOn kind) L.cols R.cols keys →
        ∃ d, joinDFNames (joinTypeFor false h) (specKindWithOn kind) lt rt keys L R = some d ∧
          d.eval = joinSpecNames (specKindWithOn kind) keys L R) := by
  have hh' := C02_how h hh
  cases hs : specKindOf h with
  | none => rw [hs] at hh'; simp at hh'
  | some kind =>
    refine ⟨kind, rfl, fun hcoll => ?_⟩
    rw [hs] at hh'
    have hjt : joinTypeFor false h = (specKindWithOn kind).jt := by
      have := hh'.1; simp at this; exact this.symm
    have hnc : specKindWithOn kind ≠ .cross := by cases kind <;> simp [specKindWithOn]
    obtain ⟨d, hd, _, he⟩ := C02_rows_name (specKindWithOn kind) hnc lt rt keys L R hL hR hkn hne hkL hkR hq hcoll hr
    exact ⟨d, by rw [hjt]; exact hd, he⟩

/-! ### named scope hypotheses and their counterexamples

Each witness is a whole program; `runImpl` is the model of what sqlframe does (the same programs are replayed on the
real code by tools/props/c02.py), `runSpec` PySpark's result (recorded in tools/oracle/c02_pyspark.json). -/

/-- `f0 = createDataFrame([[1, 10]], ['k', 'v']); f1 = createDataFrame([[3, 30]], ['k', 'w']); f2 = f0.join(f1, how='semi')` -/
def wit_onNoneInnerOrCross : List FrameDef := [
  .base { cols := ["k", "v"], rows := [[(.int 1), (.int 10)]] },
  .base { cols := ["k", "w"], rows := [[(.int 3), (.int 30)]] },
  .join 0 1 .none "semi"]

/-- `f0 = createDataFrame([[1, 10]], ['k', 'v']); f1 = createDataFrame([[3, 30]], ['k', 'w']); f2 = f0.join(f1, 'k', 'outer'); f3 = f2.where((col('k') > lit(2)))` -/
def wit_fullOuterKeyRef : List FrameDef := [
  .base { cols := ["k", "v"], rows := [[(.int 1), (.int 10)]] },
  .base { cols := ["k", "w"], rows := [[(.int 3), (.int 30)]] },
  .join 0 1 (.names ["k"]) "outer",
  .wher 2 (.bin .gt (.ref (.name "k")) (.lit (.int 2)))]

/-- `f0 = createDataFrame([[1, 10]], ['k', 'v']); f1 = createDataFrame([[1, 20]], ['k', 'w']); f2 = createDataFrame([[3, 30]], ['k', 'z']); f3 = f0.join(f1, 'k', 'left'); f4 = f3.join(f2, 'k', 'right')` -/
def wit_nameJoinChain : List FrameDef := [
  .base { cols := ["k", "v"], rows := [[(.int 1), (.int 10)]] },
  .base { cols := ["k", "w"], rows := [[(.int 1), (.int 20)]] },
  .base { cols := ["k", "z"], rows := [[(.int 3), (.int 30)]] },
  .join 0 1 (.names ["k"]) "left",
  .join 3 2 (.names ["k"]) "right"]

/-- `f0 = createDataFrame([[1, 10]], ['k', 'v']); f1 = createDataFrame([[3, 30]], ['k', 'w']); f2 = f0.join(f1, (f0['k'] == f1['k']), 'right')` -/
def wit_reversedWalkDupNames : List FrameDef := [
  .base { cols := ["k", "v"], rows := [[(.int 1), (.int 10)]] },
  .base { cols := ["k", "w"], rows := [[(.int 3), (.int 30)]] },
  .join 0 1 (.exprs [(.bin .eq (.ref (.df 0 "k")) (.ref (.df 1 "k")))]) "right"]

/-- `f0 = createDataFrame([[1, 10]], ['k', 'v']); f1 = f0.select(col('k'), (col('v') + lit(1)).alias('v')); f2 = f0.join(f1, (f0['k'] == f1['k']), 'inner'); f3 = f2.select(f0['v'], f1['v'])` -/
def wit_noCommonAncestorRef : List FrameDef := [
  .base { cols := ["k", "v"], rows := [[(.int 1), (.int 10)]] },
  .select 0 [("k", (.ref (.name "k"))), ("v", (.bin .add (.ref (.name "v")) (.lit (.int 1))))],
  .join 0 1 (.exprs [(.bin .eq (.ref (.df 0 "k")) (.ref (.df 1 "k")))]) "inner",
  .select 2 [("v", (.ref (.df 0 "v"))), ("v", (.ref (.df 1 "v")))]]

/-- `f0 = createDataFrame([[1, 10], [2, 20]], ['k', 'v']); f1 = f0.join(f0, (f0['k'] == f0['k']), 'inner')` -/
def wit_selfJoinSharedHandle : List FrameDef := [
  .base { cols := ["k", "v"], rows := [[(.int 1), (.int 10)], [(.int 2), (.int 20)]] },
  .join 0 0 (.exprs [(.bin .eq (.ref (.df 0 "k")) (.ref (.df 0 "k")))]) "inner"]

/-- `f0 = createDataFrame([[1, 10]], ['k', 'v']); f1 = createDataFrame([[3, 30]], ['k', 'w']); f2 = f0.join(f1, (f0['k'] == f1['k']), 'left'); f3 = f2.limit(1000); f4 = f3.where((col('v') > lit(0)))` -/
def wit_noDupNamesThroughWrap : List FrameDef := [
  .base { cols := ["k", "v"], rows := [[(.int 1), (.int 10)]] },
  .base { cols := ["k", "w"], rows := [[(.int 3), (.int 30)]] },
  .join 0 1 (.exprs [(.bin .eq (.ref (.df 0 "k")) (.ref (.df 1 "k")))]) "left",
  .limit 2 1000,
  .wher 3 (.bin .gt (.ref (.name "v")) (.lit (.int 0)))]

/-- `f0 = createDataFrame([[1, 10]], ['k', 'v']); f1 = createDataFrame([[1, 30]], ['k', 'w']); f2 = f0.alias('x'); f3 = f1.alias('y'); f4 = f2.join(f3, (col('x.k') == col('y.k')), 'inner'); f5 = f4.select('x.v', 'y.w')` -/
def wit_aliasQualifiedString : List FrameDef := [
  .base { cols := ["k", "v"], rows := [[(.int 1), (.int 10)]] },
  .base { cols := ["k", "w"], rows := [[(.int 1), (.int 30)]] },
  .alias 0 "x",
  .alias 1 "y",
  .join 2 3 (.exprs [(.bin .eq (.ref (.alias "x" "k" false)) (.ref (.alias "y" "k" false)))]) "inner",
  .select 4 [("v", (.ref (.alias "x" "v" true))), ("w", (.ref (.alias "y" "w" true)))]]

/-- `f0 = createDataFrame([[1, 10], [2, 20]], ['k', 'v']); f1 = createDataFrame([[2, 7], [3, 8]], ['k', 'w']); f2 = f1.select(col('k'), col('w')); f3 = f0.join(f2, 'k', 'inner'); f4 = f3.select(col('k'), col('v')); f5 = f4.join(f2, 'k', 'inner')` -/
def wit_rightCteNameClash : List FrameDef := [
  .base { cols := ["k", "v"], rows := [[(.int 1), (.int 10)], [(.int 2), (.int 20)]] },
  .base { cols := ["k", "w"], rows := [[(.int 2), (.int 7)], [(.int 3), (.int 8)]] },
  .select 1 [("k", (.ref (.name "k"))), ("w", (.ref (.name "w")))],
  .join 0 2 (.names ["k"]) "inner",
  .select 3 [("k", (.ref (.name "k"))), ("v", (.ref (.name "v")))],
  .join 4 2 (.names ["k"]) "inner"]

/-- `f0 = createDataFrame([[1, 10]], ['k', 'v']); f1 = createDataFrame([[1, 20]], ['k', 'w']); f2 = createDataFrame([[1, 30]], ['k', 'z']); f3 = f0.join(f1, (f0['k'] == f1['k']), 'semi'); f4 = f3.join(f2, (f0['k'] == f2['k']), 'inner')` -/
def wit_joinAfterSemiAnti : List FrameDef := [
  .base { cols := ["k", "v"], rows := [[(.int 1), (.int 10)]] },
  .base { cols := ["k", "w"], rows := [[(.int 1), (.int 20)]] },
  .base { cols := ["k", "z"], rows := [[(.int 1), (.int 30)]] },
  .join 0 1 (.exprs [(.bin .eq (.ref (.df 0 "k")) (.ref (.df 1 "k")))]) "semi",
  .join 3 2 (.exprs [(.bin .eq (.ref (.df 0 "k")) (.ref (.df 2 "k")))]) "inner"]

/-- `f0 = createDataFrame([[1, 10]], ['k', 'v']); f1 = createDataFrame([[1, 20]], ['k', 'w']); f2 = createDataFrame([[1, 30]], ['k', 'z']); f3 = f0.join(f1, (f0['k'] == f1['k']), 'inner'); f4 = f3.join(f2, 'k', 'inner')` -/
def wit_nameJoinDupKeyName : List FrameDef := [
  .base { cols := ["k", "v"], rows := [[(.int 1), (.int 10)]] },
  .base { cols := ["k", "w"], rows := [[(.int 1), (.int 20)]] },
  .base { cols := ["k", "z"], rows := [[(.int 1), (.int 30)]] },
  .join 0 1 (.exprs [(.bin .eq (.ref (.df 0 "k")) (.ref (.df 1 "k")))]) "inner",
  .join 3 2 (.names ["k"]) "inner"]

/-- H_onNoneInnerOrCross — `a.join(b, how="semi")` without a condition becomes a cross join (all columns, all pairs) -/
theorem C02_cex_onNoneInnerOrCross : onNoneOk "semi" = false →
    (runImpl wit_onNoneInnerOrCross).flags = ["H_onNoneInnerOrCross"] ∧ (runSpec wit_onNoneInnerOrCross).isSome = true ∧
    (runImpl wit_onNoneInnerOrCross).result ≠ runSpec wit_onNoneInnerOrCross := by decide

/-- H_fullOuterKeyRef — a reference to the key of a full-outer name-join in the same block reads the left key, not the COALESCE -/
theorem C02_cex_fullOuterKeyRef :
    (runImpl wit_fullOuterKeyRef).flags = ["H_fullOuterKeyRef"] ∧ (runSpec wit_fullOuterKeyRef).isSome = true ∧
    (runImpl wit_fullOuterKeyRef).result ≠ runSpec wit_fullOuterKeyRef := by decide

/-- H_nameJoinChain — a second name-join in the same block takes its key from the left-most table even for a right join -/
theorem C02_cex_nameJoinChain :
    (runImpl wit_nameJoinChain).flags = ["H_nameJoinChain"] ∧ (runSpec wit_nameJoinChain).isSome = true ∧
    (runImpl wit_nameJoinChain).result ≠ runSpec wit_nameJoinChain := by decide

/-- H_reversedWalkDupNames — a right join walks the tables right-to-left for *every* ambiguous name: the two `k` columns of
    `a.join(b, a.k == b.k, "right")` are swapped -/
theorem C02_cex_reversedWalkDupNames :
    (runImpl wit_reversedWalkDupNames).flags = ["H_reversedWalkDupNames"] ∧ (runSpec wit_reversedWalkDupNames).isSome = true ∧
    (runImpl wit_reversedWalkDupNames).result ≠ runSpec wit_reversedWalkDupNames := by decide

/-- H_noCommonAncestorRef — after a join of two frames of one lineage every `df[c]` reference means the left table
    (documented in normalize.py) -/
theorem C02_cex_noCommonAncestorRef :
    (runImpl wit_noCommonAncestorRef).flags = ["H_noCommonAncestorRef"] ∧ (runSpec wit_noCommonAncestorRef).isSome = true ∧
    (runImpl wit_noCommonAncestorRef).result ≠ runSpec wit_noCommonAncestorRef := by decide

/-- H_selfJoinSharedHandle — `a.join(a, a.k == a.k)`: the handle meant as the right side is known to the left side, so both
    operands resolve to the left CTE and the condition is trivially true -/
theorem C02_cex_selfJoinSharedHandle :
    (runImpl wit_selfJoinSharedHandle).flags = ["H_selfJoinSharedHandle"] ∧ (runSpec wit_selfJoinSharedHandle).isSome = true ∧
    (runImpl wit_selfJoinSharedHandle).result ≠ runSpec wit_selfJoinSharedHandle := by decide

/-- H_noDupNamesThroughWrap — an expression join keeps both `k`; freezing it gives `SELECT k, v, k, w FROM cte`, which
    reads the first `k` twice -/
theorem C02_cex_noDupNamesThroughWrap :
    (runImpl wit_noDupNamesThroughWrap).flags = ["H_noDupNamesThroughWrap"] ∧ (runSpec wit_noDupNamesThroughWrap).isSome = true ∧
    (runImpl wit_noDupNamesThroughWrap).result ≠ runSpec wit_noDupNamesThroughWrap := by decide

/-- H_aliasQualifiedString — `select("x.v")` names the column `x.v`; PySpark names it `v` -/
theorem C02_cex_aliasQualifiedString : stringDisplayIsColumnPart = false →
    (runImpl wit_aliasQualifiedString).flags = ["H_aliasQualifiedString"] ∧ (runSpec wit_aliasQualifiedString).isSome = true ∧
    (runImpl wit_aliasQualifiedString).result ≠ runSpec wit_aliasQualifiedString := by decide

/-- H_rightCteNameClash — the same DataFrame joined twice: its CTE is renamed while merging, the ON clause keeps the old name -/
theorem C02_cex_rightCteNameClash : rightNameSynced = false →
    (runImpl wit_rightCteNameClash).flags = ["H_rightCteNameClash"] ∧ (runSpec wit_rightCteNameClash).isSome = true ∧
    (runImpl wit_rightCteNameClash).result ≠ runSpec wit_rightCteNameClash := by decide

/-- H_joinAfterSemiAnti — a join added to a block that contains a semi/anti join selects columns of the invisible right table -/
theorem C02_cex_joinAfterSemiAnti :
    (runImpl wit_joinAfterSemiAnti).flags = ["H_joinAfterSemiAnti"] ∧ (runSpec wit_joinAfterSemiAnti).isSome = true ∧
    (runImpl wit_joinAfterSemiAnti).result ≠ runSpec wit_joinAfterSemiAnti := by decide

/-- H_nameJoinDupKeyName — a name-join removes *every* column called like the key; PySpark removes the key instance only -/
theorem C02_cex_nameJoinDupKeyName :
    (runImpl wit_nameJoinDupKeyName).flags = ["H_nameJoinDupKeyName"] ∧ (runSpec wit_nameJoinDupKeyName).isSome = true ∧
    (runImpl wit_nameJoinDupKeyName).result ≠ runSpec wit_nameJoinDupKeyName := by decide

/-- `f0 = session.sql('WITH k AS (SELECT k, v FROM (VALUES (1, 10), (2, 20)) AS t(k, v)) SELECT k, v FROM k'); f1 = session.sql('WITH k AS (SELECT k, v FROM (VALUES (2, 7), (3, 8)) AS t(k, v)) SELECT k, v AS w FROM k'); f2 = f0.join(f1, 'k', 'inner')` -/
def wit_cteNameNotAColumn : List FrameDef := [
  .sqlq [{ name := "k", body := .values { cols := ["k", "v"], rows := [[.int 1, .int 10], [.int 2, .int 20]] } }]
    { src := "k", items := [("k", "k"), ("v", "v")], wher := none },
  .sqlq [{ name := "k", body := .values { cols := ["k", "v"], rows := [[.int 2, .int 7], [.int 3, .int 8]] } }]
    { src := "k", items := [("k", "k"), ("w", "v")], wher := none },
  .join 0 1 (.names ["k"]) "inner"]

/-- H_cteNameNotAColumn — both statements call a CTE `k` like the column it exposes: the right one is renamed and with it every
    identifier `k` of the CTEs after it, columns included; the merged statement does not bind.  PySpark joins them. -/
theorem C02_cex_cteNameNotAColumn :
    (runImpl wit_cteNameNotAColumn).flags = ["H_cteNameNotAColumn"] ∧ (runImpl wit_cteNameNotAColumn).result = none ∧
    runSpec wit_cteNameNotAColumn = some { cols := ["k", "v", "w"], rows := [[.int 2, .int 20, .int 7]] } := by decide

/-- the same two statements with the CTE called `src`: the name clash is resolved and sqlframe returns PySpark's join -/
example : (runImpl [
    .sqlq [{ name := "src", body := .values { cols := ["k", "v"], rows := [[.int 1, .int 10], [.int 2, .int 20]] } }]
      { src := "src", items := [("k", "k"), ("v", "v")], wher := none },
    .sqlq [{ name := "src", body := .values { cols := ["k", "v"], rows := [[.int 2, .int 7], [.int 3, .int 8]] } }]
      { src := "src", items := [("k", "k"), ("w", "v")], wher := none },
    .join 0 1 (.names ["k"]) "inner"]) = { result := some { cols := ["k", "v", "w"], rows := [[.int 2, .int 20, .int 7]] }, flags := [] } := by decide

/-- `createDataFrame([[2, 20]], ['Cust_ID', 'Val']).join(createDataFrame([[2, 7]], ['cust_id', 'val']), 'cust_id')` -/
def wit_displayNameFolded : List FrameDef := [
  .baseSpelled { cols := ["cust_id", "val"], rows := [[(.int 2), (.int 20)]] } ["Cust_ID", "Val"],
  .base { cols := ["cust_id", "val"], rows := [[(.int 2), (.int 7)]] },
  .join 0 1 (.names ["cust_id"]) "inner"]

/-- H_displayNameFolded — one spelling per case-folded name: the right side's `val` is reported as `Val` -/
theorem C02_cex_displayNameFolded :
    (runImpl wit_displayNameFolded).flags = ["H_displayNameFolded"] ∧ (runSpec wit_displayNameFolded).isSome = true ∧
    (runImpl wit_displayNameFolded).result ≠ runSpec wit_displayNameFolded := by decide

/-- spelling of a name-join's key: with the generated precedence (`joinDisplayOrder`, the left DataFrame first) the key
    whose spelling differs on the two sides is reported as the left side spells it, as PySpark does -/
theorem C02_key_spelling : joinDisplayOrder = [.self, .other] ∧
    ∀ h ∈ ["inner", "left", "outer", "semi", "anti"],
      ((runImpl [.baseSpelled { cols := ["cust_id", "total"], rows := [[.int 2, .int 20]] } ["Cust_ID", "Total"],
                 .baseSpelled { cols := ["cust_id", "region"], rows := [[.int 2, .int 7]] } ["cust_id", "Region"],
                 .join 0 1 (.names ["cust_id"]) h]).result.map (·.cols)) =
      ((runSpec [.baseSpelled { cols := ["cust_id", "total"], rows := [[.int 2, .int 20]] } ["Cust_ID", "Total"],
                 .baseSpelled { cols := ["cust_id", "region"], rows := [[.int 2, .int 7]] } ["cust_id", "Region"],
                 .join 0 1 (.names ["cust_id"]) h]).map (·.cols)) := by decide

/-! ### non-vacuity -/

def exL : Table := { cols := ["k", "v"], rows := [[.int 1, .int 10], [.int 2, .int 20], [.null, .int 30], [.int 2, .int 21]] }
def exR : Table := { cols := ["k", "w"], rows := [[.int 1, .int 100], [.int 2, .int 200], [.null, .int 300], [.int 3, .int 400]] }

instance (lt rt : Name) (L R : List Name) : Decidable (QualOK lt rt L R) :=
  decidable_of_iff ((L.map (qual lt) ++ R.map (qual rt)).Nodup) ⟨fun h => ⟨h⟩, fun h => h.nd⟩
instance (kind : JoinKind) (Lc Rc keys : List Name) : Decidable (NoRightCollision kind Lc Rc keys) := by
  unfold NoRightCollision; exact inferInstance
instance (cols keys : List Name) : Decidable (RenderOK cols keys) := by
  unfold RenderOK; exact inferInstance

/-- tables whose key needs quoting -/
def exQL : Table := { cols := ["order id", "v"], rows := [[.int 1, .int 10], [.int 2, .int 20], [.null, .int 30]] }
def exQR : Table := { cols := ["order id", "w"], rows := [[.int 2, .int 200], [.null, .int 300], [.int 3, .int 400]] }

/-- … meet every hypothesis of `C02_rows_name` (incl. `RenderOK`), and the block `join` builds has the key once -/
example : exQL.WF ∧ exQR.WF ∧ QualOK "a" "b" exQL.cols exQR.cols ∧ RenderOK (exQL.cols ++ exQR.cols) ["order id"] ∧
    (joinDFNames "left outer" .leftOuter "a" "b" ["order id"] exQL exQR).map DF.eval =
      some { cols := ["order id", "v", "w"], rows := [[.int 2, .int 20, .int 200], [.int 1, .int 10, .null], [.null, .int 30, .null]] } := by decide

/-- the hypotheses of `C02_rows_name` / `C02_rows_expr` / `C02_chain_name` are met by a table pair with NULL and duplicate keys -/
example : exL.WF ∧ exR.WF ∧ QualOK "a" "b" exL.cols exR.cols ∧ RenderOK (exL.cols ++ exR.cols) ["k"] ∧ NoRightCollision .rightOuter exL.cols exR.cols ["k"] ∧
    NoRightCollision .fullOuter exL.cols exR.cols [] ∧ (joinSpecNames .fullOuter ["k"] exL exR).cols.Nodup := by decide

/-- … and the specification is not trivial there: the full-outer name-join has the coalesced key and both unmatched NULL rows -/
example : joinSpecNames .fullOuter ["k"] exL exR =
    { cols := ["k", "v", "w"],
      rows := [[.int 1, .int 10, .int 100], [.int 2, .int 20, .int 200], [.int 2, .int 21, .int 200],
               [.null, .int 30, .null], [.null, .null, .int 300], [.int 3, .null, .int 400]] } := by decide

example : (joinDFNames "full outer" .fullOuter "a" "b" ["k"] exL exR).map DF.eval = some (joinSpecNames .fullOuter ["k"] exL exR) := by decide

/-- the whole-program model agrees with the two-table block on an independent pair (every kind, by name) -/
example : ∀ h ∈ ["inner", "left", "right", "outer", "semi", "anti"],
    (runImpl [.base exL, .base exR, .join 0 1 (.names ["k"]) h]).result =
      (specKindOf h).map (fun k => joinSpecNames k ["k"] exL exR) := by decide

example : onNoneOk "inner" = true ∧ onNoneOk "cross" = true := by decide

/-! ### the full statement, for the record

C02 as given: for every program of the modelled language (frames built by createDataFrame / where / select / alias /
join / crossJoin / limit, joins in any of the documented spellings and on-forms, over independent, common-ancestor or
aliased inputs, chains of joins followed by select/where) that PySpark accepts, sqlframe returns PySpark's columns and rows.
It is FALSE on the pinned tree (`C02_not_full`); the counterexample theorems above name the causes.  Proved: `C02_how`,
`C02_on_none`, `C02_cols_*`, `C02_rows_name`, `C02_rows_expr`, `C02_null_*`, `C02_coalesce_key`, `C02_chain*`,
`C02_partial` — one join of two frozen inputs, every kind and spelling, plus freezing and any C01 chain after it.
Added later: `C02_dedup_any_name` / `C02_render_*` (names that need quoting), `C02_star_items` / `C02_star_right` /
`C02_star_left` (a qualified star after a join), `C02_merge_preserves` (merging the two WITH clauses keeps every CTE's value,
for every interpretation of the query operators) with `C02_cex_mergeKeyNew` / `C02_cex_mergeNoRenames`.
Not covered by a theorem (executable comparison implementation / model / specification only): `normalize`,
`_handle_self_join`, several joins in one block, select/where resolved inside the join block, display names, the
whole-program model's use of `_add_ctes_to_expression` (CTEs by value; forward references between CTEs). -/
def C02_full_statement : Prop :=
  ∀ (prog : List FrameDef) (T : Table), runSpec prog = some T → (runImpl prog).result = some T

theorem C02_not_full : ¬ C02_full_statement := by
  intro h
  have h1 := h wit_reversedWalkDupNames
  revert h1
  decide

end Sqlframe
