/-
Props/C07.lean — property theorems for C07 (set operations implement PySpark's multiset algebra and
column matching).

Model: Impl/C07SetOps.lean around the regenerated Gen.SetOps (node class + distinct flag per method,
the two list programs of unionByName), Gen.Methods (decorator tags) and Gen.Operations (wrap rule).
Bags are lists up to permutation; multiplicity is `List.count`; NULL rows are equal rows (`Val` has
decidable equality), exactly as SQL set operators and PySpark treat them.
-/
import SqlframeModel.Lemmas.C07DF
namespace Sqlframe
open Gen

/-- same columns, same bag of rows -/
def BagEq (S T : Table) : Prop := S.cols = T.cols ∧ S.rows.Perm T.rows

/-- the generated method table is exactly the modelled one: every public method resolves (through the
    class-level aliases) to its generated (node class, distinct flag), and no method that calls
    `_set_operation` is left without a specification -/
theorem C07_table :
    (∀ m : SetMethod, setOpTable.lookup ((setOpAliases.lookup m.name).getD m.name) = some m.op) ∧
    (setOpTable.all (fun e => SetMethod.all.any (fun m => m.name == e.1)) = true) := by
  constructor
  · intro m; cases m <;> decide
  · decide

/-- **Multiset algebra.** For every set-operation method, the SQL operator the implementation
    chooses (generated class + distinct flag) gives every row — NULL rows included — exactly PySpark's
    multiplicity: union/unionAll a+b, intersect 1 if present on both sides else 0, intersectAll min,
    exceptAll a−b truncated at 0.  For all tables, all multiplicities. -/
theorem C07_flags (m : SetMethod) (A B : List Row) (r : Row) :
    (evalSetop m.op A B).count r = setSpec m (A.count r) (B.count r) := by
  rw [evalSetop_count]
  cases m <;> rfl

/-- the same as a statement about bags: the operator's result is a permutation of the specification bag -/
theorem C07_flags_bag (m : SetMethod) (L R : Table) : BagEq (setopTable m.op L R) (setSpecTable m L R) := by
  refine ⟨rfl, ?_⟩
  rw [List.perm_iff_count]
  intro r
  simp only [setopTable, setSpecTable]
  rw [C07_flags, count_specRows _ (setSpec_zero m)]

/-- **unionByName's projection lists.**  For all column lists `l`, `r`:
    (1) in both modes the two lists have equal name lists, so the positional UNION ALL lines them up;
    (2) with allowMissingColumns the output columns are `l ++ (r \ l)` and each side contributes its own
        column where it has one and `NULL AS c` where it has not;
    (3) without it both sides are projected through the *left* names, i.e. the right side is re-ordered by name. -/
theorem C07_byName (l r : List Name) (hr : r.Nodup) :
    let sm := byNameMissing (l.map .own) (r.map .own)
    let ss := byNameStrict (l.map .own) (r.map .own)
    sm.l_expressions.map PItem.name = sm.r_expressions.map PItem.name ∧
    sm.l_expressions.map PItem.name = byNameCols true l r ∧
    sm.l_expressions = (byNameCols true l r).map (fun c => if c ∈ l then PItem.own c else PItem.null c) ∧
    sm.r_expressions = (byNameCols true l r).map (fun c => if c ∈ r then PItem.own c else PItem.null c) ∧
    ss.l_expressions = l.map PItem.own ∧ ss.r_expressions = l.map PItem.own := by
  obtain ⟨h1, h2⟩ := byNameMissing_names l r hr
  have hn : ∀ cols : List Name, ((byNameCols true l r).map (sideItem cols)).map PItem.name = byNameCols true l r := by
    intro cols
    rw [List.map_map]
    calc _ = (byNameCols true l r).map id := List.map_congr_left (fun c _ => by
            simp only [Function.comp, sideItem]; split <;> rfl)
      _ = _ := by simp
  refine ⟨?_, ?_, h1, h2, rfl, rfl⟩
  · rw [h1, h2, hn, hn]
  · rw [h1, hn]

/-- **One set operation on DataFrames.**  For operands in any reachable state (clause-order invariant of
    C01) with the same number of columns, `a.<m>(b)` evaluates to PySpark's bag, carries the left
    operand's column names, and is a freshly started block — so every C01 chain continues from it. -/
theorem C07_setop (m : SetMethod) (a b : DF) (ha : Inv a) (hb : Inv b)
    (harity : b.eval.cols.length = a.eval.cols.length) :
    BagEq (a.setop m b).eval (setSpecTable m a.eval b.eval) ∧ Fresh (a.setop m b) := by
  obtain ⟨hf, he⟩ := setop_df m a b ha hb harity
  exact ⟨he ▸ C07_flags_bag m a.eval b.eval, hf⟩

/-- the result carries the left operand's column names (all methods, both unionByName modes) -/
theorem C07_result_cols (a b : DF) (ha : Inv a) (hb : Inv b) :
    (∀ m, b.eval.cols.length = a.eval.cols.length → (a.setop m b).eval.cols = a.eval.cols) ∧
    (b.eval.cols.length = a.eval.cols.length → (∀ c ∈ a.eval.cols, c ∈ b.eval.cols) →
        (a.unionByName false b).eval.cols = a.eval.cols) ∧
    (a.unionByName true b).eval.cols = a.eval.cols ++ b.eval.cols.filter (fun c => c ∉ a.eval.cols) := by
  refine ⟨fun m h => ?_, fun h1 h2 => ?_, ?_⟩
  · rw [(setop_df m a b ha hb h).2]; rfl
  · rw [(byName_df false a b ha hb (fun _ => ⟨h1, h2⟩)).2]; rfl
  · rw [(byName_df true a b ha hb (fun h => by cases h)).2]; rfl

/-- **unionByName on DataFrames**: exactly PySpark's by-name union (rows of both sides laid out under
    the output columns, NULL where a side lacks the column), and again a fresh block. -/
theorem C07_unionByName (am : Bool) (a b : DF) (ha : Inv a) (hb : Inv b)
    (hcompat : am = false → b.eval.cols.length = a.eval.cols.length ∧ ∀ c ∈ a.eval.cols, c ∈ b.eval.cols) :
    (a.unionByName am b).eval = byNameSpec am a.eval b.eval ∧ Fresh (a.unionByName am b) := by
  obtain ⟨hf, he⟩ := byName_df am a b ha hb hcompat
  exact ⟨he, hf⟩

/-! ### nested programs -/

theorem specStep_bag (S T : Table) (h : BagEq S T) (s : Step) (hs : s.isBagStep = true) :
    BagEq (specStep S s) (specStep T s) := by
  obtain ⟨hc, hp⟩ := h
  cases s with
  | wher p =>
    refine ⟨hc, ?_⟩
    simp only [specStep, Table.filter, hc]
    exact hp.filter _
  | select items =>
    refine ⟨rfl, ?_⟩
    simp only [specStep, Table.project, hc]
    exact hp.map _
  | distinct =>
    refine ⟨hc, ?_⟩
    simp only [specStep, Table.distinct]
    rw [List.perm_iff_count]
    intro r
    rw [count_dedup, count_dedup]
    have : r ∈ S.rows ↔ r ∈ T.rows := hp.mem_iff
    by_cases h : r ∈ S.rows
    · rw [if_pos h, if_pos (this.mp h)]
    · rw [if_neg h, if_neg (fun h' => h (this.mpr h'))]
  | _ => simp [Step.isBagStep] at hs

theorem byNameSpec_bag (am : Bool) {L L' R R' : Table} (hL : BagEq L L') (hR : BagEq R R') :
    BagEq (byNameSpec am L R) (byNameSpec am L' R') := by
  obtain ⟨hc, hp⟩ := hL
  obtain ⟨hc', hp'⟩ := hR
  simp only [BagEq, byNameSpec, hc, hc', true_and]
  exact (hp.map _).append (hp'.map _)

theorem setSpecTable_bag (m : SetMethod) {L L' R R' : Table} (hL : BagEq L L') (hR : BagEq R R') :
    BagEq (setSpecTable m L R) (setSpecTable m L' R') :=
  ⟨hL.1, specRows_perm _ (setSpec_zero m) hL.2 hR.2⟩

theorem BagEq.trans {S T U : Table} (h1 : BagEq S T) (h2 : BagEq T U) : BagEq S U :=
  ⟨h1.1.trans h2.1, h1.2.trans h2.2⟩

/-- **C07, all nestings.**  For every environment of well-formed input tables and every program built
    from set operations (any method, both unionByName modes), nested to any depth, with `where` /
    `select` / `distinct` steps anywhere in between or after — PySpark-valid (union-compatible operands) — the SQL
    sqlframe builds evaluates to the bag PySpark specifies, under the left operand's names, and the
    result satisfies the clause-order invariant (it "behaves as an ordinary DataFrame"). -/
theorem C07_prog (env : List Table) : ∀ p : Prog, p.WF env →
    Inv (p.run env) ∧ BagEq (p.run env).eval (p.spec env)
  | .base i, h => by
    have hf := init_fresh _ h.2
    exact ⟨hf.inv, by rw [Prog.run, fresh_eval _ hf]; exact ⟨rfl, List.Perm.refl _⟩⟩
  | .step p s, h => by
    obtain ⟨hi, hb⟩ := C07_prog env p h.1
    have hs : s.WF (p.run env).eval.cols := by rw [hb.1]; exact h.2.2
    have hno : s.isOrderBy = true → (p.run env).last ≠ .orderBy := by
      intro ho; have := h.2.1; cases s <;> simp_all [Step.isBagStep, Step.isOrderBy]
    have hin : s.inTheorem = true := by
      have := h.2.1; cases s <;> simp_all [Step.isBagStep, Step.inTheorem]
    obtain ⟨he, hi', _⟩ := C01_step (p.run env) s hi hs hno hin
    refine ⟨hi', ?_⟩
    simp only [Prog.run, Prog.spec]
    rw [he]
    exact specStep_bag _ _ hb s h.2.1
  | .setop m l r, h => by
    obtain ⟨hil, hbl⟩ := C07_prog env l h.1
    obtain ⟨hir, hbr⟩ := C07_prog env r h.2.1
    have harity : (r.run env).eval.cols.length = (l.run env).eval.cols.length := by rw [hbl.1, hbr.1]; exact h.2.2
    obtain ⟨hb, hf⟩ := C07_setop m _ _ hil hir harity
    exact ⟨hf.inv, hb.trans (setSpecTable_bag m hbl hbr)⟩
  | .byName am l r, h => by
    obtain ⟨hil, hbl⟩ := C07_prog env l h.1
    obtain ⟨hir, hbr⟩ := C07_prog env r h.2.1
    obtain ⟨he, hf⟩ := C07_unionByName am _ _ hil hir (by rw [hbl.1, hbr.1]; exact h.2.2)
    refine ⟨hf.inv, ?_⟩
    simp only [Prog.run, Prog.spec]
    rw [he]
    exact byNameSpec_bag am hbl hbr

/-! ### exceptions: the model with CTE identities

`Prog.run` is the model without Python exceptions; `Prog.runM` adds the one exception the real code
raises inside the scope of C07 (see Impl/C07SetOps.lean, "CTE identities"). -/

theorem H_setopCteReused.left {m : SetMethod} {l r : Prog} (h : H_setopCteReused (.setop m l r)) :
    H_setopCteReused l ∧ H_setopCteReused r ∧
      (cteDedupAssumesSelect && r.setopCtes.any (fun c => c ∈ l.setopCtes)) = false := by
  rcases h with h | h
  · exact ⟨Or.inl h, Or.inl h, by rw [h]; rfl⟩
  · simp only [Prog.sharesSetop, Bool.or_eq_false_iff] at h
    exact ⟨Or.inr h.1.1, Or.inr h.1.2, by rw [h.2]; simp⟩

theorem H_setopCteReused.leftBN {am : Bool} {l r : Prog} (h : H_setopCteReused (.byName am l r)) :
    H_setopCteReused l ∧ H_setopCteReused r ∧
      (cteDedupAssumesSelect && r.setopCtes.any (fun c => c ∈ l.setopCtes)) = false := by
  rcases h with h | h
  · exact ⟨Or.inl h, Or.inl h, by rw [h]; rfl⟩
  · simp only [Prog.sharesSetop, Bool.or_eq_false_iff] at h
    exact ⟨Or.inr h.1.1, Or.inr h.1.2, by rw [h.2]; simp⟩

/-- inside the scope no exception is raised and the exception-aware model is the plain one -/
theorem runM_of_scope (env : List Table) : ∀ p : Prog, H_setopCteReused p →
    p.runM env = some { df := p.run env, ctes := p.setopCtes }
  | .base _, _ => rfl
  | .step p s, h => by
    have hp : H_setopCteReused p := by
      rcases h with h | h
      · exact Or.inl h
      · exact Or.inr (by simpa [Prog.sharesSetop] using h)
    simp [Prog.runM, runM_of_scope env p hp, Prog.run, Prog.setopCtes]
  | .setop m l r, h => by
    obtain ⟨hl, hr, hc⟩ := h.left
    simp [Prog.runM, runM_of_scope env l hl, runM_of_scope env r hr, addCtes, hc, Prog.run, Prog.setopCtes]
  | .byName am l r, h => by
    obtain ⟨hl, hr, hc⟩ := h.leftBN
    simp [Prog.runM, runM_of_scope env l hl, runM_of_scope env r hr, addCtes, hc, Prog.run, Prog.setopCtes]

/-! ### the full statement, the proved part, the counterexample -/

/-- C07 as given: every PySpark-valid nesting of set operations over well-formed inputs (independent
    or derived from the same DataFrame, with further where/select steps) builds without an exception
    and yields PySpark's bag under the left operand's column names. -/
def C07_full_statement : Prop :=
  ∀ (env : List Table) (p : Prog), p.WF env →
    ∃ st, p.runM env = some st ∧ BagEq st.df.eval (p.spec env)

/-- **C07 (proved part)**: the full conclusion for every program in the scope `H_setopCteReused`
    (the source does not assume a SELECT body when it renames a colliding CTE, or no two operands share
    a set-operation ancestor). -/
theorem C07_partial (env : List Table) (p : Prog) (hwf : p.WF env) (hs : H_setopCteReused p) :
    ∃ st, p.runM env = some st ∧ BagEq st.df.eval (p.spec env) ∧ Inv st.df :=
  ⟨_, runM_of_scope env p hs, (C07_prog env p hwf).2, (C07_prog env p hwf).1⟩

/-- once the source is repaired the scope hypothesis holds for every program: the full statement -/
theorem C07_full_of_fixed (h : cteDedupAssumesSelect = false) : C07_full_statement :=
  fun env p hwf => let ⟨st, h1, h2, _⟩ := C07_partial env p hwf (Or.inl h); ⟨st, h1, h2⟩

def cexEnv : List Table := [{ cols := ["x"], rows := [[.int 1], [.int 1], [.null]] }, { cols := ["x"], rows := [[.int 2]] }]
/-- `u = a.union(b); u.union(u)` -/
def cexProg : Prog := .setop .union (.setop .union (.base 0) (.base 1)) (.setop .union (.base 0) (.base 1))

/-- **counterexample** for `H_setopCteReused` (replayed on the real code by the check): a PySpark-valid
    program, outside the scope, on which the implementation raises instead of returning the 8-row bag -/
theorem C07_cex_setopCteReused : cteDedupAssumesSelect = true →
    cexProg.WF cexEnv ∧ (cexProg.runM cexEnv).isNone = true ∧ (cexProg.spec cexEnv).rows.length = 8 ∧
      violatedC07 cexProg = ["H_setopCteReused"] := by
  decide

theorem C07_not_full (h : cteDedupAssumesSelect = true) : ¬ C07_full_statement := by
  intro hf
  obtain ⟨hwf, hn, _, _⟩ := C07_cex_setopCteReused h
  obtain ⟨st, hs, _⟩ := hf cexEnv cexProg hwf
  rw [hs] at hn
  simp at hn

/-! ### non-vacuity -/

def exA : Table := { cols := ["x", "y"], rows := [[.int 1, .int 2], [.int 1, .int 2], [.null, .null], [.null, .null], [.int 3, .int 4]] }
def exB : Table := { cols := ["y", "x"], rows := [[.int 1, .int 2], [.null, .null], [.int 2, .int 1], [.int 2, .int 1]] }
def exC : Table := { cols := ["x", "z"], rows := [[.int 9, .str "a"]] }

/-- ((A ∩all B) ∪ (A.where x>0)).unionByName(B) then a filter; then unionByName with missing columns -/
def exProg : Prog :=
  .byName true
    (.step (.byName false (.setop .union (.setop .intersectAll (.base 0) (.base 1)) (.step (.base 0) (.wher (.bin .gt (.col "x") (.lit (.int 0)))))) (.base 1))
      (.wher (.not (.isNull (.col "y")))))
    (.base 2)

example : exProg.WF [exA, exB, exC] ∧ exProg.sharesSetop = false := by decide
example : (exProg.run [exA, exB, exC]).eval =
    { cols := ["x", "y", "z"],
      rows := [[.int 1, .int 2, .null], [.int 1, .int 2, .null], [.int 1, .int 2, .null], [.int 3, .int 4, .null],
               [.int 2, .int 1, .null], [.int 1, .int 2, .null], [.int 1, .int 2, .null], [.int 9, .null, .str "a"]] } := by decide
/-- NULL rows are equal rows; multiplicities 2 vs 1 -/
example : (evalSetop SetMethod.intersectAll.op exA.rows exB.rows).count [.null, .null] = 1 ∧
          (evalSetop SetMethod.exceptAll.op exA.rows exB.rows).count [.null, .null] = 1 ∧
          (evalSetop SetMethod.intersect.op exA.rows exB.rows).count [.int 1, .int 2] = 1 ∧
          (evalSetop SetMethod.union.op exA.rows exB.rows).count [.int 1, .int 2] = 3 := by decide
example : (byNameMissing (["x", "y"].map .own) (["z", "x"].map .own)).l_expressions = [.own "x", .own "y", .null "z"] ∧
          (byNameMissing (["x", "y"].map .own) (["z", "x"].map .own)).r_expressions = [.own "x", .null "y", .own "z"] := by decide

end Sqlframe
