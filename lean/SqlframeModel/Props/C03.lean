/-
Props/C03.lean — the statement `df.sql()` renders is self-contained: every referenced CTE is defined
(earlier) and no name is defined twice — for every way of building a DataFrame out of wraps, joins
and set operations (any nesting depth, common ancestors included).

What is proved is the part that is sqlframe's own: `_convert_leaf_to_cte`, `_add_ctes_to_expression`
(rename-on-clash), join / `_set_operation` merging, `_replace_cte_names_with_hashes`.
CTE names are content hashes; the theorems take the *freshness* the hash must provide as explicit,
decidable hypotheses (`Prog.OK`), which the harness checks on every generated statement.
That the optimised text (`optimize=True`, sqlglot's optimizer) means the same as the unoptimised one is
NOT proved here; it is validated per program by executing both texts (see tools/props/c03.py).
-/
import SqlframeModel.Lemmas.C03
import SqlframeModel.Gen.Actions
namespace Sqlframe

theorem C03_wrap (d : NDF) (n : Nat) (h : NInv d) (hn : n ∉ cnames d.ctes) : NInv (d.wrap n) := by
  refine ⟨CU_snoc d.ctes _ h.1 hn h.2, ?_⟩
  intro r hr
  simp only [NDF.wrap, List.mem_singleton] at hr
  subst hr
  simp [NDF.wrap, cnames]

/-- hypotheses on the names a join draws from the hash -/
structure JoinOK (l r : NDF) (n : Nat) (fresh : List Nat) : Prop where
  nNew : n ∉ cnames r.ctes
  freshNodup : fresh.Nodup
  freshL : ∀ f ∈ fresh, f ∉ cnames l.ctes
  freshR : ∀ f ∈ fresh, f ∉ cnames r.ctes ∧ f ≠ n
  freshLen : r.ctes.length + 1 ≤ fresh.length

theorem C03_join (l r : NDF) (n : Nat) (fresh : List Nat) (hl : NInv l) (hr : NInv r) (ok : JoinOK l r n fresh) :
    NInv (NDF.join l r n fresh) := by
  have hrw := C03_wrap r n hr ok.nNew
  have hI : MergeInv l.ctes [] [] (r.wrap n).ctes fresh := by
    refine ⟨hl.1, by simp, by simp, hrw.1.2, by simpa using hrw.1.1, ok.freshNodup, ok.freshL, ?_, ?_⟩
    · intro f hf hm
      simp only [NDF.wrap, cnames_append, List.mem_append] at hm
      rcases hm with hm | hm
      · exact (ok.freshR f hf).1 hm
      · simp [cnames] at hm; exact (ok.freshR f hf).2 hm
    · simpa [NDF.wrap] using ok.freshLen
  obtain ⟨h1, h2, h3, _⟩ := addCtes_inv _ _ _ _ _ hI
  simp only [NDF.join]
  refine ⟨h1, ?_⟩
  intro x hx
  simp only [List.mem_append, List.mem_singleton] at hx
  rcases hx with hx | rfl
  · exact h3 x (hl.2 x hx)
  · apply h2
    simp [NDF.wrap, cnames]

theorem C03_setopCore (l r : NDF) (n : Nat) (fresh : List Nat) (hl : NInv l) (hr : NInv r) (ok : JoinOK l r n fresh) :
    NInv (NDF.setopCore l r n fresh) := by
  have hrw := C03_wrap r n hr ok.nNew
  have hI : MergeInv l.ctes [] [] (r.wrap n).ctes fresh := by
    refine ⟨hl.1, by simp, by simp, hrw.1.2, by simpa using hrw.1.1, ok.freshNodup, ok.freshL, ?_, ?_⟩
    · intro f hf hm
      simp only [NDF.wrap, cnames_append, List.mem_append] at hm
      rcases hm with hm | hm
      · exact (ok.freshR f hf).1 hm
      · simp [cnames] at hm; exact (ok.freshR f hf).2 hm
    · simpa [NDF.wrap] using ok.freshLen
  obtain ⟨h1, _, h3, h4⟩ := addCtes_inv _ _ _ _ _ hI
  simp only [NDF.setopCore]
  refine ⟨h1, ?_⟩
  intro x hx
  simp only [List.mem_append, List.mem_singleton] at hx
  rcases hx with hx | rfl
  · exact h3 x (hl.2 x hx)
  · apply h4
    simp [NDF.wrap, cnames]

theorem C03_setop (l r : NDF) (n m : Nat) (fresh : List Nat) (hl : NInv l) (hr : NInv r) (ok : JoinOK l r n fresh)
    (hm : m ∉ cnames (NDF.setopCore l r n fresh).ctes) : NInv (NDF.setop l r n m fresh) :=
  C03_wrap _ m (C03_setopCore l r n fresh hl hr ok) hm

/-- what the content hash must provide along a whole program (decidable; checked per case) -/
def Prog.OK : Prog → Prop
  | .base _ => True
  | .wrap p n => p.OK ∧ n ∉ cnames p.build.ctes
  | .join l r n fresh => l.OK ∧ r.OK ∧ JoinOK l.build r.build n fresh
  | .setop l r n m fresh => l.OK ∧ r.OK ∧ JoinOK l.build r.build n fresh ∧
      m ∉ cnames (NDF.setopCore l.build r.build n fresh).ctes

/-- **self-contained**, for every program tree of any depth -/
theorem C03_closed : ∀ p : Prog, p.OK → NInv p.build := by
  intro p
  induction p with
  | base n =>
    intro _
    exact C03_wrap _ n ⟨⟨by simp [cnames], trivial⟩, by simp⟩ (by simp [cnames])
  | wrap p n ih => intro h; exact C03_wrap _ n (ih h.1) h.2
  | join l r n fresh ihl ihr => intro h; exact C03_join _ _ n fresh (ihl h.1) (ihr h.2.1) h.2.2
  | setop l r n m fresh ihl ihr =>
    intro h; exact C03_setop _ _ n m fresh (ihl h.1) (ihr h.2.1) h.2.2.1 h.2.2.2

/-! ### renaming every CTE to its hash keeps the statement self-contained -/

theorem closedFrom_rename (ρ : Nat → Nat) : ∀ (c : Chain) (s : List Nat),
    closedFrom s c → closedFrom (s.map ρ) (renameChain ρ c) := by
  intro c
  induction c with
  | nil => intro _ _; trivial
  | cons x xs ih =>
    intro s h
    refine ⟨?_, ?_⟩
    · intro r hr
      simp only [List.mem_map] at hr ⊢
      obtain ⟨r0, hr0, rfl⟩ := hr
      exact ⟨r0, h.1 r0 hr0, rfl⟩
    · have := ih (s ++ [x.name]) h.2
      simpa [renameChain] using this

theorem cnames_rename (ρ : Nat → Nat) (c : Chain) : cnames (renameChain ρ c) = (cnames c).map ρ := by
  simp [cnames, renameChain, Function.comp_def]

theorem nodup_map_of_inj {α β} (f : α → β) : ∀ (l : List α), l.Nodup → (∀ a ∈ l, ∀ b ∈ l, f a = f b → a = b) → (l.map f).Nodup := by
  intro l
  induction l with
  | nil => intro _ _; simp
  | cons x xs ih =>
    intro h hinj
    have hx := List.nodup_cons.mp h
    simp only [List.map_cons, List.nodup_cons]
    refine ⟨?_, ih hx.2 (fun a ha b hb => hinj a (by simp [ha]) b (by simp [hb]))⟩
    intro hm
    simp only [List.mem_map] at hm
    obtain ⟨y, hy, hxy⟩ := hm
    have := hinj y (by simp [hy]) x (by simp) hxy
    exact hx.1 (this ▸ hy)

/-- `_replace_cte_names_with_hashes`: if the hash is injective on the CTEs of this statement the
    renamed statement is still self-contained (a collision is reported by the harness as a violation) -/
theorem C03_rehash (ρ : Nat → Nat) (d : NDF) (h : NInv d)
    (hinj : ∀ a ∈ cnames d.ctes, ∀ b ∈ cnames d.ctes, ρ a = ρ b → a = b) :
    NInv { ctes := renameChain ρ d.ctes, open_ := d.open_.map ρ } := by
  refine ⟨⟨?_, ?_⟩, ?_⟩
  · rw [cnames_rename]; exact nodup_map_of_inj ρ _ h.1.1 hinj
  · simpa using closedFrom_rename ρ d.ctes [] h.1.2
  · intro r hr
    simp only [List.mem_map] at hr
    obtain ⟨r0, hr0, rfl⟩ := hr
    rw [cnames_rename]
    exact List.mem_map.mpr ⟨r0, h.2 r0 hr0, rfl⟩

/-- `collect()` sends the unoptimised statement list: the flag it hands to `_get_expressions` -/
theorem C03_collect_unoptimised : Gen.collectOptimize = false := by decide

/-! ### non-vacuity: a diamond (both join inputs derive from the same base: names clash and are re-salted) -/
def exDiamond : Prog :=
  .join (.wrap (.wrap (.base 1) 2) 3) (.wrap (.base 1) 4) 5 [100, 101, 102, 103]

instance (l r : NDF) (n : Nat) (fresh : List Nat) : Decidable (JoinOK l r n fresh) :=
  decidable_of_iff (n ∉ cnames r.ctes ∧ fresh.Nodup ∧ (∀ f ∈ fresh, f ∉ cnames l.ctes) ∧
      (∀ f ∈ fresh, f ∉ cnames r.ctes ∧ f ≠ n) ∧ r.ctes.length + 1 ≤ fresh.length)
    ⟨fun h => ⟨h.1, h.2.1, h.2.2.1, h.2.2.2.1, h.2.2.2.2⟩, fun h => ⟨h.nNew, h.freshNodup, h.freshL, h.freshR, h.freshLen⟩⟩

instance decProgOK : (p : Prog) → Decidable p.OK
  | .base _ => Decidable.isTrue trivial
  | .wrap p n => by unfold Prog.OK; exact @instDecidableAnd _ _ (decProgOK p) _
  | .join l r n fresh => by
      unfold Prog.OK; exact @instDecidableAnd _ _ (decProgOK l) (@instDecidableAnd _ _ (decProgOK r) _)
  | .setop l r n m fresh => by
      unfold Prog.OK
      exact @instDecidableAnd _ _ (decProgOK l) (@instDecidableAnd _ _ (decProgOK r) (@instDecidableAnd _ _ _ _))

example : exDiamond.OK := by decide
example : exDiamond.build.ctes.map (·.name) = [1, 2, 3, 100, 4, 5] := by decide
example : exDiamond.build.ctes.map (·.refs) = [[], [1], [2], [], [100], [4]] := by decide

def C03_full_statement : Prop :=
  ∀ p : Prog, p.OK → NInv p.build   -- plus: the optimised text returns collect()'s rows (validated per program, not proved)

end Sqlframe
