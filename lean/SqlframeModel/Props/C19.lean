/-
Props/C19.lean — property theorems for C19 (Row objects and the DataFrame assertion helpers behave as PySpark's).

Two transcriptions (Impl/C19Row.lean): `Sf` = sqlframe (branching on Gen/RowCompat.lean), `Ps` = the installed pyspark.
The full statement `C19_full_statement` (same outcomes for every script, exception classes identified) is false for one
documented reason — sqlframe converts Decimal to float when a Row is built from keyword arguments or by calling a Row
class (`C19_cex_decimal`); `C19_row_equiv` states the equivalence with exactly that conversion applied on the PySpark side,
`C19_row_equiv_no_decimal` is its Decimal-free corollary.
-/
import SqlframeModel.Impl.C19Row
import SqlframeModel.Lemmas.C19Dict
import SqlframeModel.Lemmas.C19Sort
namespace Sqlframe.C19
open Sqlframe.Gen.RowCompat

/-! ## 0. the sources -/

/-- every Row method and every helper function transcribed once per package below has, in the sqlframe source tree of
    this run, the same body as the installed pyspark's (modulo annotations, docstrings, exception classes and the Decimal
    conversion) -/
theorem C19_sources_identical :
    (["__new__", "asDict", "__contains__", "__call__", "__getitem__", "__getattr__", "__setattr__", "__reduce__", "__repr__"].all
      sameMethods.contains) = true ∧ diffMethods = [] ∧ missingMethods = [] ∧
    (["compare_vals", "compare_rows", "assert_rows_equal", "compare_schemas_ignore_nullable",
      "compare_structfields_ignore_nullable", "compare_datatypes_ignore_nullable"].all sameFuncs.contains) = true ∧
    diffFuncs = [] ∧ schemaTopSame = true ∧
    -- the operators the model ascribes to `tuple` (==, <, hash, len, iteration) are not overridden by the class
    rowBases = ["tuple"] ∧ extraDunders = [] ∧ classAssigns = [] := by decide

/-- same defaults for checkRowOrder / rtol / atol -/
theorem C19_defaults : sfCheckRowOrderDefault = psCheckRowOrderDefault ∧ sfRtolDefault = psRtolDefault ∧
    sfAtolDefault = psAtolDefault ∧ sortActual = .copy ∧ sortExpected = .copy ∧ psSortsBoth = true ∧
    asDictRecursiveDefault = false := by decide

/-! ## 1. repr and asDict(recursive) -/

mutual
theorem repr_equiv : ∀ v : Val, Sf.repr v = Ps.repr v
  | .none => rfl
  | .int _ => rfl
  | .str _ => rfl
  | .flt _ _ => rfl
  | .dec _ _ _ => rfl
  | .list xs => by simp only [Sf.repr, Ps.repr, reprs_equiv xs]
  | .dict ks vs => by simp only [Sf.repr, Ps.repr, reprKvs_equiv ks vs]
  | .row true fs vs => by simp only [Sf.repr, Ps.repr, reprFields_equiv fs vs]
  | .row false fs vs => by simp only [Sf.repr, Ps.repr, reprs_equiv vs]
theorem reprs_equiv : ∀ vs : Vals, Sf.reprs vs = Ps.reprs vs
  | .nil => rfl
  | .cons v .nil => by simp only [Sf.reprs, Ps.reprs, repr_equiv v]
  | .cons v (.cons w ws) => by simp only [Sf.reprs, Ps.reprs, repr_equiv v, reprs_equiv (.cons w ws)]
theorem reprKvs_equiv : ∀ (ks : List String) (vs : Vals), Sf.reprKvs ks vs = Ps.reprKvs ks vs
  | [], _ => by simp only [Sf.reprKvs, Ps.reprKvs]
  | [k], .cons v _ => by simp only [Sf.reprKvs, Ps.reprKvs, repr_equiv v]
  | [_], .nil => by simp only [Sf.reprKvs, Ps.reprKvs]
  | k :: k2 :: ks, .cons v vs => by simp only [Sf.reprKvs, Ps.reprKvs, repr_equiv v, reprKvs_equiv (k2 :: ks) vs]
  | _ :: _ :: _, .nil => by simp only [Sf.reprKvs, Ps.reprKvs]
theorem reprFields_equiv : ∀ (fs vs : Vals), Sf.reprFields fs vs = Ps.reprFields fs vs
  | .nil, _ => by simp only [Sf.reprFields, Ps.reprFields]
  | .cons _ _, .nil => by simp only [Sf.reprFields, Ps.reprFields]
  | .cons k .nil, .cons v _ => by simp only [Sf.reprFields, Ps.reprFields, repr_equiv v]
  | .cons k (.cons k2 ks), .cons v .nil => by simp only [Sf.reprFields, Ps.reprFields, repr_equiv v]
  | .cons k (.cons k2 ks), .cons v (.cons w ws) => by
    simp only [Sf.reprFields, Ps.reprFields, repr_equiv v, reprFields_equiv (.cons k2 ks) (.cons w ws)]
end

/-- **C19_repr_equiv.** `repr(row)` (hence `str(row)`, the sort key of the assertion helper) is the same string. -/
theorem C19_repr_equiv (v : Val) : Sf.repr v = Ps.repr v := repr_equiv v

mutual
theorem conv_equiv : ∀ v : Val, Sf.conv v = Ps.conv v
  | .none => rfl
  | .int _ => rfl
  | .str _ => rfl
  | .flt _ _ => rfl
  | .dec _ _ _ => rfl
  | .list xs => by
    have h : convList = true := by decide
    simp only [Sf.conv, Ps.conv, h, if_true, convs_equiv xs]
  | .dict ks vs => by
    have h : convDict = true := by decide
    simp only [Sf.conv, Ps.conv, h, if_true, convs_equiv vs]
  | .row true fs vs => by
    have h : convRow = true := by decide
    simp only [Sf.conv, Ps.conv, h, if_true, convs_equiv vs]
  | .row false fs vs => by simp only [Sf.conv, Ps.conv]
theorem convs_equiv : ∀ vs : Vals, Sf.convs vs = Ps.convs vs
  | .nil => rfl
  | .cons v vs => by simp only [Sf.convs, Ps.convs, conv_equiv v, convs_equiv vs]
end

/-! ## 2. one query on one row -/

theorem abs_idem (o : Out) : o.abs.abs = o.abs := by
  cases o with
  | err e => cases e <;> rfl
  | _ => rfl

/-- the values of a row with `__fields__` hold no top-level Decimal (true of every row sqlframe builds with fields) -/
def TopDecFree : Val → Prop
  | .row true _ vs => floatifyAll vs = vs
  | _ => True

/-- **C19_op_equiv.** Any single query — index, key, attribute, `in`, asDict (recursive or not), len, ==, <, repr,
    attribute assignment, pickle round trip, `__fields__` — has the same outcome on the same row, the packages' own
    exception classes identified. -/
theorem C19_op_equiv (r : Val) (op : Op) (h : TopDecFree r) : (Sf.apply r op).abs = (Ps.apply r op).abs := by
  have hp : getattrGuardPrefix = "__" := by decide
  have hgr : getattrGuardRaises = .attributeError := by decide
  have hnf : getattrNoField = .attributeError := by decide
  have hsh : getattrShort = .attributeError := by decide
  have hii : getitemInt = true := by decide
  have his : getitemSlice = true := by decide
  have hin : getitemNoField = .domainError := by decide
  have hik : getitemShort = .keyError := by decide
  have hsa : setattrAllowed = "__fields__" := by decide
  have hsr : setattrRaises = .runtimeError := by decide
  have hdn : asDictNoFields = .domainError := by decide
  have hdd : asDictRecursiveDefault = false := by decide
  cases op with
  | getIdx i => cases r <;> simp only [Sf.apply, Ps.apply, Sf.getIdx, Ps.getIdx, hii, if_true]
  | getKey k =>
    cases r with
    | row hf fs vs =>
      cases hf with
      | false => rfl
      | true =>
        simp only [Sf.apply, Ps.apply, Sf.getKey, Ps.getKey, hin, hik, Err.ofExc]
        cases Py.indexOf k fs 0 with
        | none => rfl
        | some j => cases vs.get? j <;> rfl
    | _ => rfl
  | getAttr n =>
    cases r with
    | row hf fs vs =>
      cases hf with
      | false => simp only [Sf.apply, Ps.apply, Sf.getAttr, Ps.getAttr, hp, hgr, Err.ofExc]
      | true => simp only [Sf.apply, Ps.apply, Sf.getAttr, Ps.getAttr, hp, hgr, hnf, hsh, Err.ofExc]
    | _ => simp only [Sf.apply, Ps.apply, Sf.getAttr, Ps.getAttr, hp, hgr, Err.ofExc]
  | contains v => cases r <;> simp only [Sf.apply, Ps.apply, Sf.contains, Ps.contains]
  | asDict rec =>
    cases r with
    | row hf fs vs =>
      cases hf with
      | false => simp only [Sf.apply, Ps.apply, Sf.asDict, Ps.asDict, hdn, Err.ofExc]; rfl
      | true => simp only [Sf.apply, Ps.apply, Sf.asDict, Ps.asDict, convs_equiv vs]
    | _ => rfl
  | asDictDefault =>
    cases r with
    | row hf fs vs =>
      cases hf with
      | false => simp only [Sf.apply, Ps.apply, Sf.asDict, Ps.asDict, hdn, Err.ofExc]; rfl
      | true => simp only [Sf.apply, Ps.apply, Sf.asDict, Ps.asDict, hdd, convs_equiv vs]
    | _ => rfl
  | len => rfl
  | eq o => rfl
  | ne o => rfl
  | lt o => rfl
  | le o => rfl
  | repr => simp only [Sf.apply, Ps.apply, repr_equiv r]
  | setAttr n => simp only [Sf.apply, Ps.apply, Sf.setAttr, Ps.setAttr, hsa, hsr, Err.ofExc]
  | delAttr n => rfl
  | setFields ns => simp only [Sf.apply, Ps.apply, Sf.setAttr, Ps.setAttr, hsa, hsr, Err.ofExc]
  | hash => rfl
  | getSlice i j => cases r <;> simp only [Sf.apply, Ps.apply, Sf.getSlice, Ps.getSlice, his, if_true]
  | pickle =>
    cases r with
    | row hf fs vs =>
      cases hf with
      | false => rfl
      | true =>
        have hv : floatifyAll vs = vs := h
        simp only [Sf.apply, Ps.apply, Sf.pickle, Ps.pickle, Sf.createRow, Ps.createRow, hv]
        cases decCreateRow <;> rfl
    | _ => rfl
  | fields => rfl

/-- the row after a query is the same row in both packages … -/
theorem after_equiv (r : Val) (op : Op) : Sf.after r op = Ps.after r op := by
  have hsa : setattrAllowed = "__fields__" := by decide
  cases op <;> simp only [Sf.after, Ps.after, hsa]

/-- no top-level Decimal among the values, with or without `__fields__` -/
def AllDecFree : Val → Prop
  | .row _ _ vs => floatifyAll vs = vs
  | _ => True

def Op.isSetFields : Op → Bool
  | .setFields _ => true
  | _ => false

theorem after_noset (r : Val) (op : Op) (h : op.isSetFields = false) : Sf.after r op = r := by
  cases op <;> first | rfl | (simp [Op.isSetFields] at h)

/-- an assignment to `__fields__` leaves the values alone -/
theorem after_allDecFree (r : Val) (op : Op) (h : AllDecFree r) : AllDecFree (Sf.after r op) ∧ TopDecFree (Sf.after r op) := by
  cases op with
  | setFields ns =>
    simp only [Sf.after]
    split
    · cases r with
      | row hf fs vs => cases hf <;> exact ⟨h, by first | exact h | trivial⟩
      | _ => exact ⟨h, trivial⟩
    · cases r with
      | row hf fs vs => exact ⟨h, h⟩
      | _ => exact ⟨h, trivial⟩
  | _ =>
    cases r with
    | row hf fs vs => cases hf <;> exact ⟨h, by first | exact h | trivial⟩
    | _ => exact ⟨h, trivial⟩

/-! ## 3. construction -/

theorem floatifyAll_idem : ∀ vs : Vals, floatifyAll (floatifyAll vs) = floatifyAll vs
  | .nil => rfl
  | .cons v vs => by
    simp only [floatifyAll, floatifyAll_idem vs]
    cases v <;> rfl

theorem floatifyAll_length : ∀ vs : Vals, (floatifyAll vs).length = vs.length
  | .nil => rfl
  | .cons v vs => by simp only [floatifyAll, Vals.length, floatifyAll_length vs]

def absE : Except Err Val → Except Err Val
  | .error e => .error e.abs
  | .ok v => .ok v

theorem isEmpty_floatifyAll (vs : Vals) : (floatifyAll vs).isEmpty = vs.isEmpty := by cases vs <;> rfl

/-- **C19_construct_equiv.** Every construction form — keyword arguments, positional, both (rejected), Row-class
    factory with any number of values — yields the same row, or raises in the same situations, as PySpark does on the
    construction whose top-level Decimal values have been converted to float. -/
theorem C19_construct_equiv (c : Ctor) : absE (Sf.construct c) = absE (Ps.construct c.floatify) := by
  have hk : decKwargs = true := by decide
  have hc : decCreateRow = true := by decide
  have hb : bothGuard = true := by decide
  have hg : callGuard = .gt := by decide
  cases c with
  | kwargs ns vs =>
    simp only [Sf.construct, Ps.construct, Ctor.floatify, Sf.new, Ps.new, hk, hb, Vals.isEmpty, Bool.not_true,
      Bool.and_false, Bool.false_and, if_true]
    cases h : ns.isEmpty <;> simp [absE]
  | positional vs =>
    simp only [Sf.construct, Ps.construct, Ctor.floatify, Sf.new, Ps.new, hb, List.isEmpty_nil, Bool.not_true,
      Bool.and_false, Bool.false_eq_true, if_false]
  | both vs ns kvs =>
    simp only [Sf.construct, Ps.construct, Ctor.floatify, Sf.new, Ps.new, hk, hb, Bool.true_and]
    cases h1 : vs.isEmpty <;> cases h2 : ns.isEmpty <;> simp [absE, Err.abs]
  | factory ns vs =>
    simp only [Sf.construct, Ps.construct, Ctor.floatify, Sf.new, Ps.new, hb, List.isEmpty_nil, Bool.not_true,
      Bool.and_false, Bool.false_eq_true, if_false, Except.bind, Sf.call, Ps.call, Sf.guardHolds, hg,
      floatifyAll_length, Sf.createRow, Ps.createRow, hc, if_true]
    by_cases hlen : vs.length > (strs ns).length
    · simp [hlen, absE, Err.abs]
    · simp [hlen, absE]

theorem construct_topDecFree (c : Ctor) (r : Val) (h : Sf.construct c = .ok r) : TopDecFree r := by
  have hk : decKwargs = true := by decide
  have hc : decCreateRow = true := by decide
  cases c with
  | kwargs ns vs =>
    simp only [Sf.construct, Sf.new, hk, if_true] at h
    split at h
    · cases h
    · split at h
      · cases h; exact floatifyAll_idem vs
      · cases h; trivial
  | positional vs =>
    simp only [Sf.construct, Sf.new] at h
    split at h
    · cases h
    · simp only [List.isEmpty_nil, Bool.not_true, Bool.false_eq_true, if_false] at h
      cases h; trivial
  | both vs ns kvs =>
    simp only [Sf.construct, Sf.new, hk, if_true] at h
    split at h
    · cases h
    · split at h
      · cases h; exact floatifyAll_idem kvs
      · cases h; trivial
  | factory ns vs =>
    simp only [Sf.construct, Sf.new, List.isEmpty_nil, Bool.not_true, Bool.and_false, Bool.false_eq_true, if_false,
      Except.bind, Sf.call] at h
    split at h
    · cases h
    · simp only [Sf.createRow, hc, if_true] at h
      cases h; exact floatifyAll_idem vs

/-- the values given positionally (they are the only ones sqlframe does not convert) -/
def Ctor.posVals : Ctor → Vals
  | .positional vs => vs
  | .both vs _ _ => vs
  | _ => .nil

theorem construct_allDecFree (c : Ctor) (r : Val) (h : Sf.construct c = .ok r) (hp : floatifyAll c.posVals = c.posVals) :
    AllDecFree r := by
  have ht := construct_topDecFree c r h
  cases r with
  | row hf fs vs =>
    cases hf with
    | true => exact ht
    | false =>
      -- a row without fields: its values are the positional arguments (or there are none)
      have hk : decKwargs = true := by decide
      have hc : decCreateRow = true := by decide
      cases c with
      | kwargs ns vs' =>
        simp only [Sf.construct, Sf.new] at h
        split at h
        · cases h
        · split at h
          · cases h
          · cases h; rfl
      | positional vs' =>
        simp only [Sf.construct, Sf.new] at h
        split at h
        · cases h
        · simp only [List.isEmpty_nil, Bool.not_true, Bool.false_eq_true, if_false] at h
          cases h; exact hp
      | both vs' ns kvs =>
        simp only [Sf.construct, Sf.new] at h
        split at h
        · cases h
        · split at h
          · cases h
          · cases h; exact hp
      | factory ns vs' =>
        simp only [Sf.construct, Sf.new, List.isEmpty_nil, Bool.not_true, Bool.and_false, Bool.false_eq_true, if_false,
          Except.bind, Sf.call] at h
        split at h
        · cases h
        · simp only [Sf.createRow] at h; cases h
  | _ => trivial

/-! ## 4. scripts -/

/-- scope of the script theorem: `row.__fields__ = …` is not applied to a row built POSITIONALLY from Decimal values
    (sqlframe converts Decimal to float only where it attaches field names; giving such a row its names afterwards and
    pickling it converts late — the same documented conversion, `C19_cex_decimal_late`) -/
def H_fields_after_decimal (c : Ctor) (ops : List Op) : Prop :=
  floatifyAll c.posVals = c.posVals ∨ ops.all (fun o => !o.isSetFields) = true

theorem runOps_equiv : ∀ (ops : List Op) (r : Val), TopDecFree r →
    (AllDecFree r ∨ ops.all (fun o => !o.isSetFields) = true) →
    (Sf.runOps r ops).map Out.abs = (Ps.runOps r ops).map Out.abs
  | [], _, _, _ => rfl
  | op :: ops, r, h1, h2 => by
    simp only [Sf.runOps, Ps.runOps, List.map_cons, C19_op_equiv r op h1, ← after_equiv r op, List.cons.injEq, true_and]
    cases h2 with
    | inl ha =>
      have := after_allDecFree r op ha
      exact runOps_equiv ops _ this.2 (Or.inl this.1)
    | inr hn =>
      simp only [List.all_cons, Bool.and_eq_true, Bool.not_eq_true'] at hn
      rw [after_noset r op hn.1]
      exact runOps_equiv ops r h1 (Or.inr hn.2)


/-- **C19_row_equiv.** For every construction and every list of queries — any length, field names with duplicates,
    nested Rows / lists / dicts / None / Decimal values — sqlframe's Row produces the outcomes PySpark's Row produces
    on the float-converted construction (the one intended difference), exception classes identified. -/
theorem C19_row_equiv (c : Ctor) (ops : List Op) (hs : H_fields_after_decimal c ops) :
    (Sf.run c ops).map Out.abs = (Ps.run c.floatify ops).map Out.abs := by
  have hc := C19_construct_equiv c
  unfold Sf.run Ps.run
  cases hsf : Sf.construct c with
  | error e =>
    rw [hsf] at hc
    cases hp : Ps.construct c.floatify with
    | error e' =>
      rw [hp] at hc; simp only [absE] at hc
      have he := Except.error.inj hc
      simp [Out.abs, he]
    | ok v => rw [hp] at hc; simp [absE] at hc
  | ok r =>
    rw [hsf] at hc
    cases hp : Ps.construct c.floatify with
    | error e' => rw [hp] at hc; simp [absE] at hc
    | ok v =>
      rw [hp] at hc
      simp only [absE] at hc
      cases hc
      have ht := construct_topDecFree c r hsf
      have h2 : AllDecFree r ∨ ops.all (fun o => !o.isSetFields) = true := by
        cases hs with
        | inl hpv => exact Or.inl (construct_allDecFree c r hsf hpv)
        | inr hn => exact Or.inr hn
      simp only [List.map_cons, List.cons.injEq, true_and]
      exact runOps_equiv ops r ht h2

/-- no top-level Decimal among the constructor's values -/
def Ctor.decimalFree (c : Ctor) : Prop := c.floatify = c

/-- **C19_row_equiv_no_decimal.** Without Decimal values at the top level of the construction the two Rows are
    indistinguishable by any script. -/
theorem C19_row_equiv_no_decimal (c : Ctor) (ops : List Op) (h : c.decimalFree) (hs : H_fields_after_decimal c ops) :
    (Sf.run c ops).map Out.abs = (Ps.run c ops).map Out.abs := by
  have := C19_row_equiv c ops hs
  rw [h] at this
  exact this

def C19_full_statement : Prop := ∀ (c : Ctor) (ops : List Op), (Sf.run c ops).map Out.abs = (Ps.run c ops).map Out.abs

/-- **the intended difference.** `Row(a=Decimal('1.5'))[0]` is the float 1.5 in sqlframe and the Decimal in PySpark;
    hence the unrestricted statement fails. -/
theorem C19_cex_decimal : decKwargs = true →
    Sf.run (.kwargs ["a"] (.cons (.dec 1500000000 "Decimal('1.5')" "1.5") .nil)) [.repr] =
      [.val (.row true (.cons (.str "a") .nil) (.cons (.flt 1500000000 "1.5") .nil)), .s "Row(a=1.5)",
       .val (.row true (.cons (.str "a") .nil) (.cons (.flt 1500000000 "1.5") .nil))] ∧
    Ps.run (.kwargs ["a"] (.cons (.dec 1500000000 "Decimal('1.5')" "1.5") .nil)) [.repr] =
      [.val (.row true (.cons (.str "a") .nil) (.cons (.dec 1500000000 "Decimal('1.5')" "1.5") .nil)),
       .s "Row(a=Decimal('1.5'))",
       .val (.row true (.cons (.str "a") .nil) (.cons (.dec 1500000000 "Decimal('1.5')" "1.5") .nil))] := by
  intro _; constructor <;> rfl

/-- **the same conversion, late.** A row built positionally keeps its Decimal (`Row(Decimal('1.5'))`); once it is
    given field names (`row.__fields__ = ['a']`) pickling goes through `_create_row`, which converts: the unpickled
    row holds 1.5 in sqlframe and the Decimal in PySpark.  This is why `C19_row_equiv` carries
    `H_fields_after_decimal`. -/
theorem C19_cex_decimal_late : decCreateRow = true →
    let c : Ctor := .positional (.cons (.dec 1500000000 "Decimal('1.5')" "1.5") .nil)
    (match (Sf.run c [.setFields ["a"], .pickle])[2]? with
     | some (.val (.row true _ (.cons (.flt 1500000000 "1.5") .nil))) => true | _ => false) = true ∧
    (match (Ps.run c.floatify [.setFields ["a"], .pickle])[2]? with
     | some (.val (.row true _ (.cons (.dec 1500000000 _ _) .nil))) => true | _ => false) = true ∧
    ¬ H_fields_after_decimal c [.setFields ["a"], .pickle] := by
  intro _
  refine ⟨by decide +kernel, by decide +kernel, ?_⟩
  intro h
  cases h with
  | inl h => simp [Ctor.posVals, floatifyAll, floatify] at h
  | inr h => simp [Op.isSetFields] at h

/-! ## 5. model laws -/

/-- pickling a row gives the row back (fields and values), in both packages -/
theorem C19_pickle_roundtrip (r : Val) (hf : Bool) (fs vs : Vals) (hr : r = .row hf fs vs) (h : TopDecFree r) :
    Sf.pickle r = .val r ∧ Ps.pickle r = .val r := by
  subst hr
  cases hf with
  | false => exact ⟨rfl, rfl⟩
  | true =>
    have hv : floatifyAll vs = vs := h
    refine ⟨?_, rfl⟩
    simp only [Sf.pickle, Sf.createRow, hv]
    cases decCreateRow <;> rfl

theorem dictSet_fresh : ∀ (ks : List String) (vs : Vals) (k : String) (v : Val), ks.length = vs.length → k ∉ ks →
    Py.dictSet ks vs k v = (ks ++ [k], Vals.ofList (vs.toList ++ [v]))
  | [], .nil, k, v, _, _ => rfl
  | [], .cons _ _, _, _, h, _ => by simp [Vals.length] at h
  | _ :: _, .nil, _, _, h, _ => by simp [Vals.length] at h
  | k' :: ks, .cons v' vs, k, v, h, hk => by
    have hne : k' ≠ k := fun e => hk (by simp [e])
    have hk2 : k ∉ ks := fun e => hk (by simp [e])
    have hl : ks.length = vs.length := by simpa [Vals.length] using h
    simp only [Py.dictSet, if_neg hne, dictSet_fresh ks vs k v hl hk2, List.cons_append, Vals.toList, Vals.ofList]

theorem ofList_toList : ∀ vs : Vals, Vals.ofList vs.toList = vs
  | .nil => rfl
  | .cons v vs => by simp only [Vals.toList, Vals.ofList, ofList_toList vs]

theorem toList_ofList : ∀ l : List Val, (Vals.ofList l).toList = l
  | [] => rfl
  | v :: l => by simp only [Vals.ofList, Vals.toList, toList_ofList l]

theorem length_ofList : ∀ l : List Val, (Vals.ofList l).length = l.length
  | [] => rfl
  | v :: l => by simp only [Vals.ofList, Vals.length, length_ofList l, List.length_cons]

theorem toList_length : ∀ vs : Vals, vs.toList.length = vs.length
  | .nil => rfl
  | .cons v vs => by simp only [Vals.toList, Vals.length, List.length_cons, toList_length vs]

theorem dictZip_nodup : ∀ (ns : List String) (vs : Vals) (accK : List String) (accV : Vals),
    ns.length = vs.length → accK.length = accV.length → (accK ++ ns).Nodup →
    Py.dictZip (strs ns) vs (accK, accV) = (accK ++ ns, Vals.ofList (accV.toList ++ vs.toList))
  | [], .nil, accK, accV, _, _, _ => by simp [strs, Vals.ofList, Py.dictZip, Vals.toList, ofList_toList]
  | [], .cons _ _, _, _, h, _, _ => by simp [Vals.length] at h
  | _ :: _, .nil, _, _, h, _, _ => by simp [Vals.length] at h
  | n :: ns, .cons v vs, accK, accV, h, ha, hnd => by
    have hl : ns.length = vs.length := by simpa [Vals.length] using h
    have hn : n ∉ accK := by
      intro hm
      have := List.nodup_append.mp hnd
      exact this.2.2 n hm n (by simp) rfl
    have hset := dictSet_fresh accK accV n v ha hn
    simp only [strs, List.map_cons, Vals.ofList, Py.dictZip, Py.keyStr, hset]
    have hnd' : ((accK ++ [n]) ++ ns).Nodup := by simpa [List.append_assoc] using hnd
    have ha' : (accK ++ [n]).length = (Vals.ofList (accV.toList ++ [v])).length := by
      rw [length_ofList, List.length_append, List.length_append, toList_length, ha]
      rfl
    have ih := dictZip_nodup ns vs (accK ++ [n]) (Vals.ofList (accV.toList ++ [v])) hl ha' hnd'
    simp only [strs] at ih
    rw [ih]
    simp [toList_ofList, Vals.toList, List.append_assoc]

/-- **C19_asDict_roundtrip.** For distinct field names, `row.asDict()` lists exactly the fields with their values in
    order, and `Row(**row.asDict())` is the row again — in both packages. -/
theorem C19_asDict_roundtrip (ns : List String) (vs : Vals) (hl : ns.length = vs.length) (hnd : ns.Nodup)
    (hd : floatifyAll vs = vs) :
    Sf.asDict (.row true (strs ns) vs) false = .val (.dict ns vs) ∧
    Ps.asDict (.row true (strs ns) vs) false = .val (.dict ns vs) ∧
    (ns ≠ [] → Sf.new .nil ns vs = .ok (.row true (strs ns) vs) ∧ Ps.new .nil ns vs = .ok (.row true (strs ns) vs)) := by
  have hz := dictZip_nodup ns vs [] .nil hl rfl (by simpa using hnd)
  simp only [List.nil_append, Vals.toList, ofList_toList] at hz
  refine ⟨by simp [Sf.asDict, hz], by simp [Ps.asDict, hz], ?_⟩
  intro hne
  have hemp : ns.isEmpty = false := by cases ns with | nil => exact absurd rfl hne | cons _ _ => rfl
  constructor
  · simp only [Sf.new, Vals.isEmpty, Bool.not_true, Bool.and_false, Bool.false_and, hemp, Bool.not_false, if_true, strs, hd]
    cases decKwargs <;> simp
  · simp [Ps.new, Vals.isEmpty, hemp, strs]

/-! ## 6. the assertion helpers -/

mutual
theorem compareVals_equiv (close : Int → Int → Bool) : ∀ a b : Val, Sf.compareVals close a b = Ps.compareVals close a b
  | .list xs, .list ys => by
    have h : listLenChecked = true := by decide
    simp only [Sf.compareVals, Ps.compareVals, h, if_true, compareAll_equiv close xs ys]
  | .row _ _ xs, .row _ _ ys => by
    have h : rowZipTruncates = true := by decide
    simp only [Sf.compareVals, Ps.compareVals, h, if_true, Bool.true_and, compareAll_equiv close xs ys]
  | .dict k1 v1, .dict k2 v2 => by
    have h : dictKeysChecked = true := by decide
    have hl : dictLenChecked = true := by decide
    have hb : dictPairing = .byKey := by decide
    simp only [Sf.compareVals, Ps.compareVals, h, hl, hb, if_true, compareDict_equiv close k1 v1 k2 v2, Bool.and_assoc]
  | .flt a ra, .flt b rb => by
    have h : floatFormula = true := by decide
    simp only [Sf.compareVals, Ps.compareVals, h, if_true]
  | .none, b => by cases b <;> simp only [Sf.compareVals, Ps.compareVals]
  | .int _, b => by cases b <;> simp only [Sf.compareVals, Ps.compareVals]
  | .str _, b => by cases b <;> simp only [Sf.compareVals, Ps.compareVals]
  | .dec _ _ _, b => by cases b <;> simp only [Sf.compareVals, Ps.compareVals]
  | .flt _ _, .none => by simp only [Sf.compareVals, Ps.compareVals]
  | .flt _ _, .int _ => by simp only [Sf.compareVals, Ps.compareVals]
  | .flt _ _, .str _ => by simp only [Sf.compareVals, Ps.compareVals]
  | .flt _ _, .dec _ _ _ => by simp only [Sf.compareVals, Ps.compareVals]
  | .flt _ _, .list _ => by simp only [Sf.compareVals, Ps.compareVals]
  | .flt _ _, .dict _ _ => by simp only [Sf.compareVals, Ps.compareVals]
  | .flt _ _, .row _ _ _ => by simp only [Sf.compareVals, Ps.compareVals]
  | .list _, .none => by simp only [Sf.compareVals, Ps.compareVals]
  | .list _, .int _ => by simp only [Sf.compareVals, Ps.compareVals]
  | .list _, .str _ => by simp only [Sf.compareVals, Ps.compareVals]
  | .list _, .flt _ _ => by simp only [Sf.compareVals, Ps.compareVals]
  | .list _, .dec _ _ _ => by simp only [Sf.compareVals, Ps.compareVals]
  | .list _, .dict _ _ => by simp only [Sf.compareVals, Ps.compareVals]
  | .list _, .row _ _ _ => by simp only [Sf.compareVals, Ps.compareVals]
  | .dict _ _, .none => by simp only [Sf.compareVals, Ps.compareVals]
  | .dict _ _, .int _ => by simp only [Sf.compareVals, Ps.compareVals]
  | .dict _ _, .str _ => by simp only [Sf.compareVals, Ps.compareVals]
  | .dict _ _, .flt _ _ => by simp only [Sf.compareVals, Ps.compareVals]
  | .dict _ _, .dec _ _ _ => by simp only [Sf.compareVals, Ps.compareVals]
  | .dict _ _, .list _ => by simp only [Sf.compareVals, Ps.compareVals]
  | .dict _ _, .row _ _ _ => by simp only [Sf.compareVals, Ps.compareVals]
  | .row _ _ _, .none => by simp only [Sf.compareVals, Ps.compareVals]
  | .row _ _ _, .int _ => by simp only [Sf.compareVals, Ps.compareVals]
  | .row _ _ _, .str _ => by simp only [Sf.compareVals, Ps.compareVals]
  | .row _ _ _, .flt _ _ => by simp only [Sf.compareVals, Ps.compareVals]
  | .row _ _ _, .dec _ _ _ => by simp only [Sf.compareVals, Ps.compareVals]
  | .row _ _ _, .list _ => by simp only [Sf.compareVals, Ps.compareVals]
  | .row _ _ _, .dict _ _ => by simp only [Sf.compareVals, Ps.compareVals]
theorem compareAll_equiv (close : Int → Int → Bool) : ∀ xs ys : Vals, Sf.compareAll close xs ys = Ps.compareAll close xs ys
  | .cons a as, .cons b bs => by
    simp only [Sf.compareAll, Ps.compareAll, compareVals_equiv close a b, compareAll_equiv close as bs]
  | .nil, _ => by simp only [Sf.compareAll, Ps.compareAll]
  | .cons _ _, .nil => by simp only [Sf.compareAll, Ps.compareAll]
theorem compareDict_equiv (close : Int → Int → Bool) : ∀ (k1 : List String) (v1 : Vals) (k2 : List String) (v2 : Vals),
    Sf.compareDict close k1 v1 k2 v2 = Ps.compareDict close k1 v1 k2 v2
  | k :: ks, .cons v vs, k2, v2 => by
    simp only [Sf.compareDict, Ps.compareDict, compareDict_equiv close ks vs k2 v2]
    cases Py.lookup k k2 v2 with
    | none => rfl
    | some w => simp only [compareVals_equiv close v w]
  | [], _, _, _ => by simp only [Sf.compareDict, Ps.compareDict]
  | _ :: _, .nil, _, _ => by simp only [Sf.compareDict, Ps.compareDict]
end

theorem insertBy_equiv (x : Val) : ∀ l : List Val, Sf.insertBy Sf.repr x l = Ps.insertBy Ps.repr x l
  | [] => rfl
  | y :: ys => by simp only [Sf.insertBy, Ps.insertBy, repr_equiv, insertBy_equiv x ys]

theorem sortRows_equiv : ∀ l : List Val, Sf.sortRows l = Ps.sortRows l
  | [] => rfl
  | x :: xs => by
    have ih := sortRows_equiv xs
    simp only [Sf.sortRows, Ps.sortRows, List.foldr_cons] at ih ⊢
    rw [ih, insertBy_equiv]

theorem restLeft_equiv (close : Int → Int → Bool) : ∀ l : List Val, Sf.restLeft close l = Ps.restLeft close l
  | [] => rfl
  | a :: as => by simp only [Sf.restLeft, Ps.restLeft, Sf.compareRows, Ps.compareRows, restLeft_equiv close as]

theorem restRight_equiv (close : Int → Int → Bool) : ∀ l : List Val, Sf.restRight close l = Ps.restRight close l
  | [] => rfl
  | a :: as => by simp only [Sf.restRight, Ps.restRight, Sf.compareRows, Ps.compareRows, restRight_equiv close as]

theorem zipLongestAll_equiv (close : Int → Int → Bool) : ∀ a e : List Val,
    Sf.zipLongestAll close a e = Ps.zipLongestAll close a e
  | [], bs => by
    have h : zipLongest = true := by decide
    simp only [Sf.zipLongestAll, Ps.zipLongestAll, h, if_true, restRight_equiv]
  | x :: xs, [] => by
    have h : zipLongest = true := by decide
    simp only [Sf.zipLongestAll, Ps.zipLongestAll, h, if_true, restLeft_equiv]
  | x :: xs, y :: ys => by
    simp only [Sf.zipLongestAll, Ps.zipLongestAll, Sf.compareRows, Ps.compareRows, compareVals_equiv, zipLongestAll_equiv close xs ys]

theorem sortIf_equiv (order : Bool) (l : List Val) :
    Sf.sortIf sortActual order l = Ps.sortIf order l ∧ Sf.sortIf sortExpected order l = Ps.sortIf order l := by
  have ha : sortActual = .copy := by decide
  have he : sortExpected = .copy := by decide
  simp only [Sf.sortIf, Ps.sortIf, ha, he, sortRows_equiv]
  cases order <;> simp

/-- **C19_assert_equiv.** On the same two lists of rows, for every `checkRowOrder` setting and every closeness
    predicate (i.e. every rtol / atol), sqlframe's assertDataFrameEqual accepts exactly when PySpark's does. -/
theorem C19_assert_equiv (close : Int → Int → Bool) (checkRowOrder : Bool) (actual expected : List Val) :
    Sf.verdict close checkRowOrder actual expected = Ps.verdict close checkRowOrder actual expected := by
  simp only [Sf.verdict, Ps.verdict, zipLongestAll_equiv, (sortIf_equiv checkRowOrder actual).1,
    (sortIf_equiv checkRowOrder expected).2]

mutual
theorem compareDatatypes_equiv : ∀ a b : DType, Sf.compareDatatypes a b = Ps.compareDatatypes a b
  | .array e1 _, .array e2 _ => by simp only [Sf.compareDatatypes, Ps.compareDatatypes, compareDatatypes_equiv e1 e2]
  | .struct f1, .struct f2 => by simp only [Sf.compareDatatypes, Ps.compareDatatypes, compareFields_equiv f1 f2]
  | .atomic _, b => by cases b <;> simp only [Sf.compareDatatypes, Ps.compareDatatypes]
  | .map _ _ _, b => by cases b <;> simp only [Sf.compareDatatypes, Ps.compareDatatypes]
  | .array _ _, .atomic _ => by simp only [Sf.compareDatatypes, Ps.compareDatatypes]
  | .array _ _, .map _ _ _ => by simp only [Sf.compareDatatypes, Ps.compareDatatypes]
  | .array _ _, .struct _ => by simp only [Sf.compareDatatypes, Ps.compareDatatypes]
  | .struct _, .atomic _ => by simp only [Sf.compareDatatypes, Ps.compareDatatypes]
  | .struct _, .map _ _ _ => by simp only [Sf.compareDatatypes, Ps.compareDatatypes]
  | .struct _, .array _ _ => by simp only [Sf.compareDatatypes, Ps.compareDatatypes]
theorem compareFields_equiv : ∀ a b : SFields, Sf.compareFields a b = Ps.compareFields a b
  | .cons n1 d1 _ r1, .cons n2 d2 _ r2 => by
    simp only [Sf.compareFields, Ps.compareFields, compareDatatypes_equiv d1 d2, compareFields_equiv r1 r2]
  | .nil, .nil => rfl
  | .nil, .cons _ _ _ _ => rfl
  | .cons _ _ _ _, .nil => rfl
end

/-- **C19_schema_equiv.** assertSchemaEqual accepts the same pairs of schemas. -/
theorem C19_schema_equiv (a e : SFields) : Sf.schemaVerdict a e = Ps.schemaVerdict a e := by
  simp only [Sf.schemaVerdict, Ps.schemaVerdict, compareFields_equiv]

-- set every nullable / containsNull flag to `true`
mutual
def DType.strip : DType → DType
  | .atomic n => .atomic n
  | .array e _ => .array e.strip true
  | .map k v _ => .map k v true
  | .struct f => .struct f.strip
def SFields.strip : SFields → SFields
  | .nil => .nil
  | .cons n d _ r => .cons n d.strip true r.strip
end

theorem strip_length : ∀ f : SFields, f.strip.length = f.length
  | .nil => rfl
  | .cons _ _ _ r => by simp only [SFields.strip, SFields.length, strip_length r]

mutual
theorem compareDatatypes_strip : ∀ a b : DType, Sf.compareDatatypes a.strip b.strip = Sf.compareDatatypes a b
  | .array e1 _, .array e2 _ => by simp only [DType.strip, Sf.compareDatatypes, compareDatatypes_strip e1 e2]
  | .struct f1, .struct f2 => by
    simp only [DType.strip, Sf.compareDatatypes, compareFields_strip f1 f2, strip_length]
  | .atomic _, b => by cases b <;> simp only [DType.strip, Sf.compareDatatypes, DType.typeName]
  | .map _ _ _, b => by cases b <;> simp only [DType.strip, Sf.compareDatatypes, DType.typeName]
  | .array _ _, .atomic _ => by simp only [DType.strip, Sf.compareDatatypes, DType.typeName]
  | .array _ _, .map _ _ _ => by simp only [DType.strip, Sf.compareDatatypes, DType.typeName]
  | .array _ _, .struct _ => by simp only [DType.strip, Sf.compareDatatypes, DType.typeName]
  | .struct _, .atomic _ => by simp only [DType.strip, Sf.compareDatatypes, DType.typeName]
  | .struct _, .map _ _ _ => by simp only [DType.strip, Sf.compareDatatypes, DType.typeName]
  | .struct _, .array _ _ => by simp only [DType.strip, Sf.compareDatatypes, DType.typeName]
theorem compareFields_strip : ∀ a b : SFields, Sf.compareFields a.strip b.strip = Sf.compareFields a b
  | .cons n1 d1 _ r1, .cons n2 d2 _ r2 => by
    simp only [SFields.strip, Sf.compareFields, compareDatatypes_strip d1 d2, compareFields_strip r1 r2]
  | .nil, .nil => rfl
  | .nil, .cons _ _ _ _ => rfl
  | .cons _ _ _ _, .nil => rfl
end

/-- **C19_schema_ignores_nullable.** The schema verdict does not depend on any nullable / containsNull /
    valueContainsNull flag, at any depth. -/
theorem C19_schema_ignores_nullable (a e : SFields) : Sf.schemaVerdict a.strip e.strip = Sf.schemaVerdict a e := by
  simp only [Sf.schemaVerdict, strip_length, compareFields_strip]

/-! ## 8. attribute access reaches every field; slices -/

/-- **C19_getattr_field.** Every field whose name does not begin with TWO underscores (and is not a method of the
    class) is reachable as an attribute, and `row.name` is `row["name"]` — the first field of that name.  In
    particular single-underscore names (`_1`, `_c0`, Spark's own default column names) are ordinary fields. -/
theorem C19_getattr_field (fs vs : Vals) (name : String)
    (hd : Py.startsWith name "__" = false) (hc : Py.classAttrs.contains name = false)
    (hin : Py.contains (.str name) fs = true) (hlen : fs.length ≤ vs.length) :
    ∃ v, Sf.getAttr (.row true fs vs) name = .val v ∧ Sf.getKey (.row true fs vs) (.str name) = .val v ∧
      Ps.getAttr (.row true fs vs) name = .val v := by
  have hp : getattrGuardPrefix = "__" := by decide
  obtain ⟨k, hk, hlt⟩ := indexOf_of_contains (.str name) fs 0 hin
  obtain ⟨v, hv⟩ := get?_lt vs k (by omega)
  exact ⟨v, by simp only [Sf.getAttr, hc, hp, hd, hk, hv]; simp, by simp only [Sf.getKey, hk, hv],
    by simp only [Ps.getAttr, hc, hd, hk, hv]; simp⟩

/-- **C19_getattr_guard.** Exactly the names beginning with two underscores are refused up front, whatever the fields
    are (the probes of copy / pickle / hasattr(row, "__fields__") rely on it). -/
theorem C19_getattr_guard (r : Val) (name : String) (hc : Py.classAttrs.contains name = false)
    (hd : Py.startsWith name "__" = true) :
    Sf.getAttr r name = .err .attributeError ∧ Ps.getAttr r name = .err .attributeError := by
  have hp : getattrGuardPrefix = "__" := by decide
  have hg : getattrGuardRaises = .attributeError := by decide
  exact ⟨by simp only [Sf.getAttr, hc, hp, hd, hg, Err.ofExc]; simp, by simp only [Ps.getAttr, hc, hd]; simp⟩

/-- a name that is no field (and not refused up front) raises AttributeError as an attribute and the package's own
    error as a key — never a value -/
theorem C19_getattr_missing (fs vs : Vals) (name : String)
    (hd : Py.startsWith name "__" = false) (hc : Py.classAttrs.contains name = false)
    (hin : Py.indexOf (.str name) fs 0 = none) :
    Sf.getAttr (.row true fs vs) name = .err .attributeError ∧
    Sf.getKey (.row true fs vs) (.str name) = .err .rowError := by
  have hp : getattrGuardPrefix = "__" := by decide
  have hn : getattrNoField = .attributeError := by decide
  have hk : getitemNoField = .domainError := by decide
  exact ⟨by simp only [Sf.getAttr, hc, hp, hd, hin, hn, Err.ofExc]; simp, by simp only [Sf.getKey, hin, hk, Err.ofExc]⟩

theorem takeVals_all : ∀ vs : Vals, Py.takeVals vs.length vs = vs
  | .nil => rfl
  | .cons v vs => by simp only [Vals.length, Py.takeVals, takeVals_all vs]

/-- **C19_slice_all.** `row[0:len(row)]` is the tuple of all values (a plain tuple: the field names are gone). -/
theorem C19_slice_all (hf : Bool) (fs vs : Vals) :
    Sf.getSlice (.row hf fs vs) 0 vs.length = .tup vs ∧ Ps.getSlice (.row hf fs vs) 0 vs.length = .tup vs := by
  have hs : getitemSlice = true := by decide
  have h : Py.slice vs 0 vs.length = vs := by
    have hhi : Py.clampBound vs.length (vs.length : Int) = vs.length := by
      have h1 : ¬ ((vs.length : Int) < 0) := by omega
      have h2 : ¬ ((vs.length : Int).toNat < vs.length) := by omega
      simp only [Py.clampBound, h1, h2, if_false]
    have hlo : Py.clampBound vs.length 0 = 0 := by
      by_cases h0 : (0 : Int).toNat < vs.length
      · simp only [Py.clampBound, h0, if_true]; rfl
      · have : vs.length = 0 := by simp at h0; omega
        simp only [Py.clampBound, this]; rfl
    show Py.takeVals (Py.clampBound vs.length (vs.length : Int) - Py.clampBound vs.length 0)
      (Py.dropVals (Py.clampBound vs.length 0) vs) = vs
    rw [hhi, hlo, Nat.sub_zero]
    simp only [Py.dropVals, takeVals_all]
  exact ⟨by simp only [Sf.getSlice, hs, if_true, h], by simp only [Ps.getSlice, h]⟩

/-! ## 9. maps are compared key by key: the insertion order plays no part -/

/-- **C19_dict_insertion_order.** For two maps given with their entries in any insertion order (keys of a dict are
    distinct), `compare_vals` gives the same answer: it depends on the key → value mapping only.  (Pairing the values
    by position instead — `zip(val1.values(), val2.values())` — does not have this property.) -/
theorem C19_dict_insertion_order (close : Int → Int → Bool)
    (k1 : List String) (v1 : Vals) (k2 : List String) (v2 : Vals)
    (k1' : List String) (v1' : Vals) (k2' : List String) (v2' : Vals)
    (hl1 : k1.length = v1.length) (hl1' : k1'.length = v1'.length)
    (hl2 : k2.length = v2.length) (hl2' : k2'.length = v2'.length)
    (hp1 : (Py.pairs k1 v1).Perm (Py.pairs k1' v1')) (hp2 : (Py.pairs k2 v2).Perm (Py.pairs k2' v2'))
    (hnd : k2.Nodup) :
    Sf.compareVals close (.dict k1 v1) (.dict k2 v2) = Sf.compareVals close (.dict k1' v1') (.dict k2' v2') ∧
    Sf.compareVals close (.dict k1' v1') (.dict k2' v2') = Ps.compareVals close (.dict k1' v1') (.dict k2' v2') := by
  refine ⟨?_, compareVals_equiv close _ _⟩
  have hb : dictPairing = .byKey := by decide
  have hk1 : k1.Perm k1' := by
    have := hp1.map Prod.fst
    rwa [pairs_keys k1 v1 hl1, pairs_keys k1' v1' hl1'] at this
  have hk2 : k2.Perm k2' := by
    have := hp2.map Prod.fst
    rwa [pairs_keys k2 v2 hl2, pairs_keys k2' v2' hl2'] at this
  have hnd2 : ((Py.pairs k2 v2).map Prod.fst).Nodup := by rw [pairs_keys k2 v2 hl2]; exact hnd
  simp only [Sf.compareVals, hb, hk1.length_eq, hk2.length_eq, all_contains_perm hk1 hk2, all_contains_perm hk2 hk1,
    compareDict_all]
  congr 1
  rw [all_perm _ hp1]
  apply List.all_congr rfl
  intro p
  rw [lookupP_perm p.1 hp2 hnd2]

/-- **why maps must be paired by key.** `{'a': 1, 'b': 2}` against `{'b': 2, 'a': 1}`: key by key they agree;
    paired by position (`zip(val1.values(), val2.values())`) 1 meets 2.  And `{'a': 1, 'b': 2}` against
    `{'b': 1, 'a': 2}` is wrongly accepted by position. -/
theorem C19_cex_positional :
    let ab : Vals := .cons (.int 1) (.cons (.int 2) .nil)
    let ba : Vals := .cons (.int 2) (.cons (.int 1) .nil)
    Sf.compareDict (fun a b => a == b) ["a", "b"] ab ["b", "a"] ba = true ∧
    Sf.compareAll (fun a b => a == b) ab ba = false ∧
    Sf.compareDict (fun a b => a == b) ["a", "b"] ab ["b", "a"] ab = false ∧
    Sf.compareAll (fun a b => a == b) ab ab = true := by decide +kernel

/-- an instance of `C19_dict_insertion_order` with a genuinely different insertion order -/
example : (Py.pairs ["b", "a"] (.cons (.flt 2000000000 "2.0") (.cons (.flt 1000000000 "1.0") .nil))).Perm
    (Py.pairs ["a", "b"] (.cons (.flt 1000000000 "1.0") (.cons (.flt 2000000000 "2.0") .nil))) ∧ ["b", "a"].Nodup :=
  ⟨List.Perm.swap _ _ _, by decide⟩

/-- an instance of `C19_getattr_field`: `Row(_1=1, _2='a')._1` -/
example : Py.startsWith "_1" "__" = false ∧ Py.classAttrs.contains "_1" = false ∧
    Py.contains (.str "_1") (.cons (.str "_1") (.cons (.str "_2") .nil)) = true ∧
    (match Sf.getAttr (.row true (.cons (.str "_1") (.cons (.str "_2") .nil)) (.cons (.int 1) (.cons (.str "a") .nil))) "_1" with
     | .val (.int 1) => true | _ => false) = true := by decide +kernel

/-! ## 10. the helper leaves its arguments alone: sequences of calls on the same list objects -/

theorem upd_id (s : St) (b : Bool) (f : List Val → List Val) (hf : ∀ l, f l = l) : s.upd b f = s := by
  cases s; cases b <;> simp only [St.upd, hf] <;> rfl

theorem step_equiv (c : Call) (s : St) : Sf.step c s = Ps.step c s := by
  have ha : sortActual = .copy := by decide
  have he : sortExpected = .copy := by decide
  have h1 : ∀ l, Sf.callerAfter sortActual c.order l = l := by
    intro l; simp only [Sf.callerAfter, ha]; cases c.order <;> rfl
  have h2 : ∀ l, Sf.callerAfter sortExpected c.order l = l := by
    intro l; simp only [Sf.callerAfter, he]; cases c.order <;> rfl
  simp only [Sf.step, Sf.stepM, Ps.step, upd_id _ _ _ h1, upd_id _ _ _ h2, Ps.verdict, zipLongestAll_equiv,
    (sortIf_equiv c.order _).1, (sortIf_equiv c.order _).2]

/-- **C19_assert_calls_equiv.** Any sequence of assertDataFrameEqual calls — each with its own checkRowOrder / rtol /
    atol, the caller's two lists passed in either role or one list as both arguments — gives, call by call, the
    verdicts PySpark gives, and leaves the caller's lists as PySpark leaves them. -/
theorem C19_assert_calls_equiv : ∀ (cs : List Call) (s : St), Sf.runCalls cs s = Ps.runCalls cs s
  | [], _ => rfl
  | c :: cs, s => by
    have hs : Sf.stepM sortActual sortExpected c s = Ps.step c s := step_equiv c s
    have ih : Sf.runCallsM sortActual sortExpected cs (Ps.step c s).2 = Ps.runCalls cs (Ps.step c s).2 :=
      C19_assert_calls_equiv cs _
    simp only [Sf.runCalls, Sf.runCallsM, Ps.runCalls, hs, ih]

/-- **C19_assert_pure.** The helper is a pure check: after any sequence of calls the caller's lists are what they
    were, and every verdict is the verdict of that call on the ORIGINAL lists (an earlier call never influences a
    later one). -/
theorem C19_assert_pure : ∀ (cs : List Call) (s : St),
    (Sf.runCalls cs s).2 = s ∧
    (Sf.runCalls cs s).1 = cs.map (fun c => Sf.verdict c.close c.order (s.get c.sel.firstIsA) (s.get c.sel.secondIsA))
  | [], _ => ⟨rfl, rfl⟩
  | c :: cs, s => by
    have hs : (Sf.step c s).2 = s := by rw [step_equiv]; rfl
    have hv : (Sf.step c s).1 = Sf.verdict c.close c.order (s.get c.sel.firstIsA) (s.get c.sel.secondIsA) := by
      rw [step_equiv, C19_assert_equiv]; rfl
    have ih := C19_assert_pure cs s
    have hs' : (Sf.stepM sortActual sortExpected c s).2 = s := hs
    have hv' : (Sf.stepM sortActual sortExpected c s).1 = _ := hv
    simp only [Sf.runCalls] at ih
    simp only [Sf.runCalls, Sf.runCallsM, hs', hv', ih.1, ih.2, List.map_cons, and_self]

def exR1 : Val := .row true (.cons (.str "id") .nil) (.cons (.int 1) .nil)
def exR2 : Val := .row true (.cons (.str "id") .nil) (.cons (.int 2) .nil)
def exCalls : List Call :=
  [{ close := fun a b => a == b, order := false, sel := .ae }, { close := fun a b => a == b, order := true, sel := .ae }]

/-- **why the sort must work on copies.** Rows collected as [2, 1] against the expectation [1, 2]: the unordered call
    accepts and the ordered call on the same lists rejects — unless the first call sorted the caller's lists in place,
    in which case the second call is wrongly accepted and the caller's list has changed. -/
theorem C19_cex_sort_in_place :
    (Sf.runCallsM .copy .copy exCalls ⟨[exR2, exR1], [exR1, exR2]⟩).1 = [true, false] ∧
    (Sf.runCallsM .inPlace .inPlace exCalls ⟨[exR2, exR1], [exR1, exR2]⟩).1 = [true, true] ∧
    ((Sf.runCallsM .inPlace .inPlace exCalls ⟨[exR2, exR1], [exR1, exR2]⟩).2.a.map Sf.repr) = ["Row(id=1)", "Row(id=2)"] := by
  decide +kernel

/-- the same two calls under the source's sort modes: the instance of `C19_assert_pure` -/
example : (Sf.runCalls exCalls ⟨[exR2, exR1], [exR1, exR2]⟩).1 = [true, false] := by decide +kernel

/-! ## 11. None / list / DataFrame arguments -/

/-- **C19_assert_args_equiv.** For every kind of argument pair — None, a list of rows, a DataFrame (its schema and
    its collected rows) — the call is accepted exactly when PySpark accepts it: both None is accepted, one None is
    refused, the schemas are compared (ignoring nullability) only when both arguments are DataFrames, then the rows. -/
theorem C19_assert_args_equiv (close : Int → Int → Bool) (order : Bool) (a e : Arg) :
    Sf.verdictArgs close order a e = Ps.verdictArgs close order a e := by
  have hn : noneBothAccepts = true := by decide
  have hw : schemaWhen = .bothFrames := by decide
  cases a <;> cases e <;>
    simp only [Sf.verdictArgs, Ps.verdictArgs, hn, hw, C19_assert_equiv, C19_schema_equiv]

/-! ## 12. checkRowOrder=False really ignores the order -/

/-- **C19_unordered_perm.** With checkRowOrder=False the verdict does not depend on the order of either list: any
    permutation of `actual` against any permutation of `expected` gets the same verdict (rows are told apart by their
    `str()`, the sort key) — in sqlframe as in PySpark. -/
theorem C19_unordered_perm (close : Int → Int → Bool) (a a' e e' : List Val) (ha : a.Perm a') (he : e.Perm e')
    (hia : ∀ x y, x ∈ a → y ∈ a → Sf.repr x = Sf.repr y → x = y)
    (hie : ∀ x y, x ∈ e → y ∈ e → Sf.repr x = Sf.repr y → x = y) :
    Sf.verdict close false a e = Sf.verdict close false a' e' ∧
    Sf.verdict close false a' e' = Ps.verdict close false a' e' := by
  refine ⟨?_, C19_assert_equiv close false a' e'⟩
  have hsa : sortActual = .copy := by decide
  have hse : sortExpected = .copy := by decide
  simp only [Sf.verdict, Sf.sortIf, hsa, hse]
  have h1 := sortRows_perm_eq a a' ha hia
  have h2 := sortRows_perm_eq e e' he hie
  simp [h1, h2]

/-- **C19_unordered_accepts_permutation.** With checkRowOrder=False a list is accepted against any permutation of
    itself (every float being close to itself), whatever is nested in the rows. -/
theorem C19_unordered_accepts_permutation (close : Int → Int → Bool) (hc : ∀ x, close x x = true) (a e : List Val)
    (hp : a.Perm e) (hwf : ∀ r, r ∈ a → r.WF)
    (hia : ∀ x y, x ∈ a → y ∈ a → Sf.repr x = Sf.repr y → x = y) :
    Sf.verdict close false a e = true := by
  have hsa : sortActual = .copy := by decide
  have hse : sortExpected = .copy := by decide
  have h1 := sortRows_perm_eq a e hp hia
  simp only [Sf.verdict, Sf.sortIf, hsa, hse]
  have : Sf.zipLongestAll close (Sf.sortRows a) (Sf.sortRows e) = true := by
    rw [← h1]
    exact zipLongestAll_refl close hc _ (fun r hr => hwf r ((sortRows_perm a).mem_iff.mp hr))
  simpa using this

/-- an instance: three rows (a nested map among them) against their reversal -/
example :
    let r1 : Val := .row true (.cons (.str "id") .nil) (.cons (.int 1) .nil)
    let r2 : Val := .row true (.cons (.str "id") .nil) (.cons (.int 2) .nil)
    let r3 : Val := .row true (.cons (.str "m") .nil) (.cons (.dict ["a", "b"] (.cons (.flt 1500000000 "1.5") (.cons .none .nil))) .nil)
    [r1, r2, r3].Perm [r3, r2, r1] ∧ (∀ r, r ∈ [r1, r2, r3] → r.WF) ∧
    Sf.verdict (fun x y => x == y) false [r1, r2, r3] [r3, r2, r1] = true ∧
    Sf.verdict (fun x y => x == y) true [r1, r2, r3] [r3, r2, r1] = false := by
  refine ⟨?_, ?_, by decide +kernel, by decide +kernel⟩
  · exact (List.Perm.swap _ _ _).trans ((List.Perm.cons _ (List.Perm.swap _ _ _)).trans (List.Perm.swap _ _ _))
  · intro r hr
    simp only [List.mem_cons, List.mem_nil_iff, or_false] at hr
    rcases hr with h | h | h <;> subst h <;> simp [Val.WF, Vals.WF, Vals.length]

/-! ## 7. non-vacuity -/

def exCtor : Ctor :=
  .factory ["a", "a", "b"]
    (.cons (.int 2) (.cons (.dec 2250000000 "Decimal('2.25')" "2.25")
      (.cons (.row true (.cons (.str "x") .nil) (.cons (.list (.cons (.int 3) .nil)) .nil)) .nil)))

def exOps : List Op :=
  [.getKey (.str "a"), .getAttr "b", .asDict true, .repr, .getIdx (-1), .getKey (.str "zz"), .contains (.str "a"), .pickle,
   .setAttr "a", .getAttr "__x"]

/-- a script that exercises duplicate names, a nested Row, a Decimal, errors of three kinds; the outcomes are not all
    errors and the two sides really differ before the float conversion -/
example : ((Sf.run exCtor exOps).map Out.abs).length = 12 ∧
    (match (Sf.run exCtor exOps)[3]? with | some (Out.val (Val.dict ks _)) => ks == ["a", "b"] | _ => false) = true ∧
    (match (Sf.run exCtor exOps)[6]? with | some (Out.err Err.rowError) => true | _ => false) = true ∧
    (match (Ps.run exCtor exOps)[6]? with | some (Out.err Err.psValueError) => true | _ => false) = true := by
  decide +kernel

/-- a script inside `H_fields_after_decimal` that does assign `__fields__`: the later queries see the new names, and
    the row reported at the end is the renamed one -/
example :
    let c : Ctor := .kwargs ["a", "b"] (.cons (.int 1) (.cons (.dec 2250000000 "Decimal('2.25')" "2.25") .nil))
    let ops : List Op := [.getAttr "_1", .setFields ["_1", "_2"], .getAttr "_1", .getKey (.str "a"), .pickle]
    H_fields_after_decimal c ops ∧
    (match Sf.run c ops with
     | [.val _, .err .attributeError, .b true, .val (.int 1), .err .rowError, .val (.row true _ _), .val (.row true fs _)] =>
       fs.length == 2
     | _ => false) = true := by
  refine ⟨Or.inl rfl, by decide +kernel⟩

example : Ctor.decimalFree (.kwargs ["name", "age"] (.cons (.str "Alice") (.cons (.int 11) .nil))) := rfl

/-- the verdict functions are not constant: a perturbed float is rejected or accepted depending on `close` -/
example :
    let r1 : Val := .row true (.cons (.str "a") .nil) (.cons (.flt 1500000000 "1.5") .nil)
    let r2 : Val := .row true (.cons (.str "a") .nil) (.cons (.flt 1500000100 "1.5000001") .nil)
    Sf.verdict (fun a b => a == b) false [r1] [r2] = false ∧ Sf.verdict (fun _ _ => true) false [r1] [r2] = true ∧
    Sf.verdict (fun a b => a == b) false [r1, r2] [r2, r1] = true ∧ Sf.verdict (fun a b => a == b) true [r1, r2] [r2, r1] = false := by
  decide +kernel

end Sqlframe.C19
