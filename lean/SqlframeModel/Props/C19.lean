/-
Props/C19.lean — property theorems for C19 (Row objects and the DataFrame assertion helpers behave as PySpark's).

Two transcriptions (Impl/C19Row.lean): `Sf` = sqlframe (branching on Gen/RowCompat.lean), `Ps` = the installed pyspark.
The full statement `C19_full_statement` (same outcomes for every script, exception classes identified) is false for one
documented reason — sqlframe converts Decimal to float when a Row is built from keyword arguments or by calling a Row
class (`C19_cex_decimal`); `C19_row_equiv` states the equivalence with exactly that conversion applied on the PySpark side,
`C19_row_equiv_no_decimal` is its Decimal-free corollary.
-/
import SqlframeModel.Impl.C19Row
namespace Sqlframe.C19
open Sqlframe.Gen.RowCompat

/-! ## 0. the sources -/

/-- every Row method and every helper function transcribed once per package below has, in the sqlframe source tree of
    this run, the same body as the installed pyspark's (modulo annotations, docstrings, exception classes and the Decimal
    conversion) -/
theorem C19_sources_identical :
    (["__new__", "asDict", "__contains__", "__call__", "__getitem__", "__getattr__", "__setattr__", "__reduce__", "__repr__"].all
      sameMethods.contains) = true ∧ diffMethods = [] ∧ missingMethods = [] ∧
    (["compare_vals", "compare_rows", "assert_rows_equal", "compare_schemas_ignore_nullable",
      "compare_structfields_ignore_nullable", "compare_datatypes_ignore_nullable"].all sameFuncs.contains) = true ∧
    diffFuncs = [] := by decide

/-- same defaults for checkRowOrder / rtol / atol -/
theorem C19_defaults : sfCheckRowOrderDefault = psCheckRowOrderDefault ∧ sfRtolDefault = psRtolDefault ∧
    sfAtolDefault = psAtolDefault ∧ sortsBoth = psSortsBoth := by decide

/-! ## 1. repr and asDict(recursive) -/

mutual
theorem repr_equiv : ∀ v : Val, Sf.repr v = Ps.repr v
  | .none => rfl
  | .int _ => rfl
  | .str _ => rfl
  | .flt _ _ => rfl
  | .dec _ _ _ => rfl
  | .list xs => by simp only [Sf.repr, Ps.repr, reprs_equiv xs]
  | .dict ks vs => by simp only [Sf.repr, Ps.repr, reprKvs_equiv ks vs]
  | .row true fs vs => by simp only [Sf.repr, Ps.repr, reprFields_equiv fs vs]
  | .row false fs vs => by simp only [Sf.repr, Ps.repr, reprs_equiv vs]
theorem reprs_equiv : ∀ vs : Vals, Sf.reprs vs = Ps.reprs vs
  | .nil => rfl
  | .cons v .nil => by simp only [Sf.reprs, Ps.reprs, repr_equiv v]
  | .cons v (.cons w ws) => by simp only [Sf.reprs, Ps.reprs, repr_equiv v, reprs_equiv (.cons w ws)]
theorem reprKvs_equiv : ∀ (ks : List String) (vs : Vals), Sf.reprKvs ks vs = Ps.reprKvs ks vs
  | [], _ => by simp only [Sf.reprKvs, Ps.reprKvs]
  | [k], .cons v _ => by simp only [Sf.reprKvs, Ps.reprKvs, repr_equiv v]
  | [_], .nil => by simp only [Sf.reprKvs, Ps.reprKvs]
  | k :: k2 :: ks, .cons v vs => by simp only [Sf.reprKvs, Ps.reprKvs, repr_equiv v, reprKvs_equiv (k2 :: ks) vs]
  | _ :: _ :: _, .nil => by simp only [Sf.reprKvs, Ps.reprKvs]
theorem reprFields_equiv : ∀ (fs vs : Vals), Sf.reprFields fs vs = Ps.reprFields fs vs
  | .nil, _ => by simp only [Sf.reprFields, Ps.reprFields]
  | .cons _ _, .nil => by simp only [Sf.reprFields, Ps.reprFields]
  | .cons k .nil, .cons v _ => by simp only [Sf.reprFields, Ps.reprFields, repr_equiv v]
  | .cons k (.cons k2 ks), .cons v .nil => by simp only [Sf.reprFields, Ps.reprFields, repr_equiv v]
  | .cons k (.cons k2 ks), .cons v (.cons w ws) => by
    simp only [Sf.reprFields, Ps.reprFields, repr_equiv v, reprFields_equiv (.cons k2 ks) (.cons w ws)]
end

/-- **C19_repr_equiv.** `repr(row)` (hence `str(row)`, the sort key of the assertion helper) is the same string. -/
theorem C19_repr_equiv (v : Val) : Sf.repr v = Ps.repr v := repr_equiv v

mutual
theorem conv_equiv : ∀ v : Val, Sf.conv v = Ps.conv v
  | .none => rfl
  | .int _ => rfl
  | .str _ => rfl
  | .flt _ _ => rfl
  | .dec _ _ _ => rfl
  | .list xs => by simp only [Sf.conv, Ps.conv, convs_equiv xs]
  | .dict ks vs => by simp only [Sf.conv, Ps.conv, convs_equiv vs]
  | .row true fs vs => by simp only [Sf.conv, Ps.conv, convs_equiv vs]
  | .row false fs vs => by simp only [Sf.conv, Ps.conv]
theorem convs_equiv : ∀ vs : Vals, Sf.convs vs = Ps.convs vs
  | .nil => rfl
  | .cons v vs => by simp only [Sf.convs, Ps.convs, conv_equiv v, convs_equiv vs]
end

/-! ## 2. one query on one row -/

theorem abs_idem (o : Out) : o.abs.abs = o.abs := by
  cases o with
  | err e => cases e <;> rfl
  | _ => rfl

/-- the values of a row with `__fields__` hold no top-level Decimal (true of every row sqlframe builds with fields) -/
def TopDecFree : Val → Prop
  | .row true _ vs => floatifyAll vs = vs
  | _ => True

/-- **C19_op_equiv.** Any single query — index, key, attribute, `in`, asDict (recursive or not), len, ==, <, repr,
    attribute assignment, pickle round trip, `__fields__` — has the same outcome on the same row, the packages' own
    exception classes identified. -/
theorem C19_op_equiv (r : Val) (op : Op) (h : TopDecFree r) : (Sf.apply r op).abs = (Ps.apply r op).abs := by
  cases op with
  | getIdx i => cases r <;> simp only [Sf.apply, Ps.apply, Sf.getIdx, Ps.getIdx]
  | getKey k =>
    cases r with
    | row hf fs vs =>
      cases hf with
      | false => rfl
      | true =>
        simp only [Sf.apply, Ps.apply, Sf.getKey, Ps.getKey]
        cases Py.indexOf k fs 0 with
        | none => rfl
        | some j => cases vs.get? j <;> rfl
    | _ => rfl
  | getAttr n =>
    cases r with
    | row hf fs vs => cases hf <;> simp only [Sf.apply, Ps.apply, Sf.getAttr, Ps.getAttr]
    | _ => simp only [Sf.apply, Ps.apply, Sf.getAttr, Ps.getAttr]
  | contains v => cases r <;> simp only [Sf.apply, Ps.apply, Sf.contains, Ps.contains]
  | asDict rec =>
    cases r with
    | row hf fs vs =>
      cases hf with
      | false => rfl
      | true => simp only [Sf.apply, Ps.apply, Sf.asDict, Ps.asDict, convs_equiv vs]
    | _ => rfl
  | len => rfl
  | eq o => rfl
  | lt o => rfl
  | repr => simp only [Sf.apply, Ps.apply, repr_equiv r]
  | setAttr n => rfl
  | pickle =>
    cases r with
    | row hf fs vs =>
      cases hf with
      | false => rfl
      | true =>
        have hv : floatifyAll vs = vs := h
        simp only [Sf.apply, Ps.apply, Sf.pickle, Ps.pickle, Sf.createRow, Ps.createRow, hv]
        cases decCreateRow <;> rfl
    | _ => rfl
  | fields => rfl

/-! ## 3. construction -/

theorem floatifyAll_idem : ∀ vs : Vals, floatifyAll (floatifyAll vs) = floatifyAll vs
  | .nil => rfl
  | .cons v vs => by
    simp only [floatifyAll, floatifyAll_idem vs]
    cases v <;> rfl

theorem floatifyAll_length : ∀ vs : Vals, (floatifyAll vs).length = vs.length
  | .nil => rfl
  | .cons v vs => by simp only [floatifyAll, Vals.length, floatifyAll_length vs]

def absE : Except Err Val → Except Err Val
  | .error e => .error e.abs
  | .ok v => .ok v

theorem isEmpty_floatifyAll (vs : Vals) : (floatifyAll vs).isEmpty = vs.isEmpty := by cases vs <;> rfl

/-- **C19_construct_equiv.** Every construction form — keyword arguments, positional, both (rejected), Row-class
    factory with any number of values — yields the same row, or raises in the same situations, as PySpark does on the
    construction whose top-level Decimal values have been converted to float. -/
theorem C19_construct_equiv (c : Ctor) : absE (Sf.construct c) = absE (Ps.construct c.floatify) := by
  have hk : decKwargs = true := by decide
  have hc : decCreateRow = true := by decide
  have hb : bothGuard = true := by decide
  have hg : callGuard = .gt := by decide
  cases c with
  | kwargs ns vs =>
    simp only [Sf.construct, Ps.construct, Ctor.floatify, Sf.new, Ps.new, hk, hb, Vals.isEmpty, Bool.not_true,
      Bool.and_false, Bool.false_and, if_true]
    cases h : ns.isEmpty <;> simp [absE]
  | positional vs =>
    simp only [Sf.construct, Ps.construct, Ctor.floatify, Sf.new, Ps.new, hb, List.isEmpty_nil, Bool.not_true,
      Bool.and_false, Bool.false_eq_true, if_false]
  | both vs ns kvs =>
    simp only [Sf.construct, Ps.construct, Ctor.floatify, Sf.new, Ps.new, hk, hb, Bool.true_and]
    cases h1 : vs.isEmpty <;> cases h2 : ns.isEmpty <;> simp [absE, Err.abs]
  | factory ns vs =>
    simp only [Sf.construct, Ps.construct, Ctor.floatify, Sf.new, Ps.new, hb, List.isEmpty_nil, Bool.not_true,
      Bool.and_false, Bool.false_eq_true, if_false, Except.bind, Sf.call, Ps.call, Sf.guardHolds, hg,
      floatifyAll_length, Sf.createRow, Ps.createRow, hc, if_true]
    by_cases hlen : vs.length > (strs ns).length
    · simp [hlen, absE, Err.abs]
    · simp [hlen, absE]

theorem construct_topDecFree (c : Ctor) (r : Val) (h : Sf.construct c = .ok r) : TopDecFree r := by
  have hk : decKwargs = true := by decide
  have hc : decCreateRow = true := by decide
  cases c with
  | kwargs ns vs =>
    simp only [Sf.construct, Sf.new, hk, if_true] at h
    split at h
    · cases h
    · split at h
      · cases h; exact floatifyAll_idem vs
      · cases h; trivial
  | positional vs =>
    simp only [Sf.construct, Sf.new] at h
    split at h
    · cases h
    · simp only [List.isEmpty_nil, Bool.not_true, Bool.false_eq_true, if_false] at h
      cases h; trivial
  | both vs ns kvs =>
    simp only [Sf.construct, Sf.new, hk, if_true] at h
    split at h
    · cases h
    · split at h
      · cases h; exact floatifyAll_idem kvs
      · cases h; trivial
  | factory ns vs =>
    simp only [Sf.construct, Sf.new, List.isEmpty_nil, Bool.not_true, Bool.and_false, Bool.false_eq_true, if_false,
      Except.bind, Sf.call] at h
    split at h
    · cases h
    · simp only [Sf.createRow, hc, if_true] at h
      cases h; exact floatifyAll_idem vs

/-! ## 4. scripts -/

/-- **C19_row_equiv.** For every construction and every list of queries — any length, field names with duplicates,
    nested Rows / lists / dicts / None / Decimal values — sqlframe's Row produces the outcomes PySpark's Row produces
    on the float-converted construction (the one intended difference), exception classes identified. -/
theorem C19_row_equiv (c : Ctor) (ops : List Op) :
    (Sf.run c ops).map Out.abs = (Ps.run c.floatify ops).map Out.abs := by
  have hc := C19_construct_equiv c
  unfold Sf.run Ps.run
  cases hs : Sf.construct c with
  | error e =>
    rw [hs] at hc
    cases hp : Ps.construct c.floatify with
    | error e' =>
      rw [hp] at hc; simp only [absE] at hc
      have he := Except.error.inj hc
      simp [Out.abs, he]
    | ok v => rw [hp] at hc; simp [absE] at hc
  | ok r =>
    rw [hs] at hc
    cases hp : Ps.construct c.floatify with
    | error e' => rw [hp] at hc; simp [absE] at hc
    | ok v =>
      rw [hp] at hc
      simp only [absE] at hc
      cases hc
      have ht := construct_topDecFree c r hs
      simp only [List.map_cons, List.map_map, List.cons.injEq, true_and]
      apply List.map_congr_left
      intro op _
      exact C19_op_equiv r op ht

/-- no top-level Decimal among the constructor's values -/
def Ctor.decimalFree (c : Ctor) : Prop := c.floatify = c

/-- **C19_row_equiv_no_decimal.** Without Decimal values at the top level of the construction the two Rows are
    indistinguishable by any script. -/
theorem C19_row_equiv_no_decimal (c : Ctor) (ops : List Op) (h : c.decimalFree) :
    (Sf.run c ops).map Out.abs = (Ps.run c ops).map Out.abs := by
  have := C19_row_equiv c ops
  rw [h] at this
  exact this

def C19_full_statement : Prop := ∀ (c : Ctor) (ops : List Op), (Sf.run c ops).map Out.abs = (Ps.run c ops).map Out.abs

/-- **the intended difference.** `Row(a=Decimal('1.5'))[0]` is the float 1.5 in sqlframe and the Decimal in PySpark;
    hence the unrestricted statement fails. -/
theorem C19_cex_decimal : decKwargs = true →
    Sf.run (.kwargs ["a"] (.cons (.dec 1500000000 "Decimal('1.5')" "1.5") .nil)) [.repr] =
      [.val (.row true (.cons (.str "a") .nil) (.cons (.flt 1500000000 "1.5") .nil)), .s "Row(a=1.5)"] ∧
    Ps.run (.kwargs ["a"] (.cons (.dec 1500000000 "Decimal('1.5')" "1.5") .nil)) [.repr] =
      [.val (.row true (.cons (.str "a") .nil) (.cons (.dec 1500000000 "Decimal('1.5')" "1.5") .nil)),
       .s "Row(a=Decimal('1.5'))"] := by
  intro _; constructor <;> rfl

/-! ## 5. model laws -/

/-- pickling a row gives the row back (fields and values), in both packages -/
theorem C19_pickle_roundtrip (r : Val) (hf : Bool) (fs vs : Vals) (hr : r = .row hf fs vs) (h : TopDecFree r) :
    Sf.pickle r = .val r ∧ Ps.pickle r = .val r := by
  subst hr
  cases hf with
  | false => exact ⟨rfl, rfl⟩
  | true =>
    have hv : floatifyAll vs = vs := h
    refine ⟨?_, rfl⟩
    simp only [Sf.pickle, Sf.createRow, hv]
    cases decCreateRow <;> rfl

theorem dictSet_fresh : ∀ (ks : List String) (vs : Vals) (k : String) (v : Val), ks.length = vs.length → k ∉ ks →
    Py.dictSet ks vs k v = (ks ++ [k], Vals.ofList (vs.toList ++ [v]))
  | [], .nil, k, v, _, _ => rfl
  | [], .cons _ _, _, _, h, _ => by simp [Vals.length] at h
  | _ :: _, .nil, _, _, h, _ => by simp [Vals.length] at h
  | k' :: ks, .cons v' vs, k, v, h, hk => by
    have hne : k' ≠ k := fun e => hk (by simp [e])
    have hk2 : k ∉ ks := fun e => hk (by simp [e])
    have hl : ks.length = vs.length := by simpa [Vals.length] using h
    simp only [Py.dictSet, if_neg hne, dictSet_fresh ks vs k v hl hk2, List.cons_append, Vals.toList, Vals.ofList]

theorem ofList_toList : ∀ vs : Vals, Vals.ofList vs.toList = vs
  | .nil => rfl
  | .cons v vs => by simp only [Vals.toList, Vals.ofList, ofList_toList vs]

theorem toList_ofList : ∀ l : List Val, (Vals.ofList l).toList = l
  | [] => rfl
  | v :: l => by simp only [Vals.ofList, Vals.toList, toList_ofList l]

theorem length_ofList : ∀ l : List Val, (Vals.ofList l).length = l.length
  | [] => rfl
  | v :: l => by simp only [Vals.ofList, Vals.length, length_ofList l, List.length_cons]

theorem toList_length : ∀ vs : Vals, vs.toList.length = vs.length
  | .nil => rfl
  | .cons v vs => by simp only [Vals.toList, Vals.length, List.length_cons, toList_length vs]

theorem dictZip_nodup : ∀ (ns : List String) (vs : Vals) (accK : List String) (accV : Vals),
    ns.length = vs.length → accK.length = accV.length → (accK ++ ns).Nodup →
    Py.dictZip (strs ns) vs (accK, accV) = (accK ++ ns, Vals.ofList (accV.toList ++ vs.toList))
  | [], .nil, accK, accV, _, _, _ => by simp [strs, Vals.ofList, Py.dictZip, Vals.toList, ofList_toList]
  | [], .cons _ _, _, _, h, _, _ => by simp [Vals.length] at h
  | _ :: _, .nil, _, _, h, _, _ => by simp [Vals.length] at h
  | n :: ns, .cons v vs, accK, accV, h, ha, hnd => by
    have hl : ns.length = vs.length := by simpa [Vals.length] using h
    have hn : n ∉ accK := by
      intro hm
      have := List.nodup_append.mp hnd
      exact this.2.2 n hm n (by simp) rfl
    have hset := dictSet_fresh accK accV n v ha hn
    simp only [strs, List.map_cons, Vals.ofList, Py.dictZip, Py.keyStr, hset]
    have hnd' : ((accK ++ [n]) ++ ns).Nodup := by simpa [List.append_assoc] using hnd
    have ha' : (accK ++ [n]).length = (Vals.ofList (accV.toList ++ [v])).length := by
      rw [length_ofList, List.length_append, List.length_append, toList_length, ha]
      rfl
    have ih := dictZip_nodup ns vs (accK ++ [n]) (Vals.ofList (accV.toList ++ [v])) hl ha' hnd'
    simp only [strs] at ih
    rw [ih]
    simp [toList_ofList, Vals.toList, List.append_assoc]

/-- **C19_asDict_roundtrip.** For distinct field names, `row.asDict()` lists exactly the fields with their values in
    order, and `Row(**row.asDict())` is the row again — in both packages. -/
theorem C19_asDict_roundtrip (ns : List String) (vs : Vals) (hl : ns.length = vs.length) (hnd : ns.Nodup)
    (hd : floatifyAll vs = vs) :
    Sf.asDict (.row true (strs ns) vs) false = .val (.dict ns vs) ∧
    Ps.asDict (.row true (strs ns) vs) false = .val (.dict ns vs) ∧
    (ns ≠ [] → Sf.new .nil ns vs = .ok (.row true (strs ns) vs) ∧ Ps.new .nil ns vs = .ok (.row true (strs ns) vs)) := by
  have hz := dictZip_nodup ns vs [] .nil hl rfl (by simpa using hnd)
  simp only [List.nil_append, Vals.toList, ofList_toList] at hz
  refine ⟨by simp [Sf.asDict, hz], by simp [Ps.asDict, hz], ?_⟩
  intro hne
  have hemp : ns.isEmpty = false := by cases ns with | nil => exact absurd rfl hne | cons _ _ => rfl
  constructor
  · simp only [Sf.new, Vals.isEmpty, Bool.not_true, Bool.and_false, Bool.false_and, hemp, Bool.not_false, if_true, strs, hd]
    cases decKwargs <;> simp
  · simp [Ps.new, Vals.isEmpty, hemp, strs]

/-! ## 6. the assertion helpers -/

mutual
theorem compareVals_equiv (close : Int → Int → Bool) : ∀ a b : Val, Sf.compareVals close a b = Ps.compareVals close a b
  | .list xs, .list ys => by
    have h : listLenChecked = true := by decide
    simp only [Sf.compareVals, Ps.compareVals, h, if_true, compareAll_equiv close xs ys]
  | .row _ _ xs, .row _ _ ys => by
    have h : rowZipTruncates = true := by decide
    simp only [Sf.compareVals, Ps.compareVals, h, if_true, Bool.true_and, compareAll_equiv close xs ys]
  | .dict k1 v1, .dict k2 v2 => by
    have h : dictKeysChecked = true := by decide
    simp only [Sf.compareVals, Ps.compareVals, h, if_true, compareDict_equiv close k1 v1 k2 v2]
  | .flt a ra, .flt b rb => by
    have h : floatFormula = true := by decide
    simp only [Sf.compareVals, Ps.compareVals, h, if_true]
  | .none, b => by cases b <;> simp only [Sf.compareVals, Ps.compareVals]
  | .int _, b => by cases b <;> simp only [Sf.compareVals, Ps.compareVals]
  | .str _, b => by cases b <;> simp only [Sf.compareVals, Ps.compareVals]
  | .dec _ _ _, b => by cases b <;> simp only [Sf.compareVals, Ps.compareVals]
  | .flt _ _, .none => by simp only [Sf.compareVals, Ps.compareVals]
  | .flt _ _, .int _ => by simp only [Sf.compareVals, Ps.compareVals]
  | .flt _ _, .str _ => by simp only [Sf.compareVals, Ps.compareVals]
  | .flt _ _, .dec _ _ _ => by simp only [Sf.compareVals, Ps.compareVals]
  | .flt _ _, .list _ => by simp only [Sf.compareVals, Ps.compareVals]
  | .flt _ _, .dict _ _ => by simp only [Sf.compareVals, Ps.compareVals]
  | .flt _ _, .row _ _ _ => by simp only [Sf.compareVals, Ps.compareVals]
  | .list _, .none => by simp only [Sf.compareVals, Ps.compareVals]
  | .list _, .int _ => by simp only [Sf.compareVals, Ps.compareVals]
  | .list _, .str _ => by simp only [Sf.compareVals, Ps.compareVals]
  | .list _, .flt _ _ => by simp only [Sf.compareVals, Ps.compareVals]
  | .list _, .dec _ _ _ => by simp only [Sf.compareVals, Ps.compareVals]
  | .list _, .dict _ _ => by simp only [Sf.compareVals, Ps.compareVals]
  | .list _, .row _ _ _ => by simp only [Sf.compareVals, Ps.compareVals]
  | .dict _ _, .none => by simp only [Sf.compareVals, Ps.compareVals]
  | .dict _ _, .int _ => by simp only [Sf.compareVals, Ps.compareVals]
  | .dict _ _, .str _ => by simp only [Sf.compareVals, Ps.compareVals]
  | .dict _ _, .flt _ _ => by simp only [Sf.compareVals, Ps.compareVals]
  | .dict _ _, .dec _ _ _ => by simp only [Sf.compareVals, Ps.compareVals]
  | .dict _ _, .list _ => by simp only [Sf.compareVals, Ps.compareVals]
  | .dict _ _, .row _ _ _ => by simp only [Sf.compareVals, Ps.compareVals]
  | .row _ _ _, .none => by simp only [Sf.compareVals, Ps.compareVals]
  | .row _ _ _, .int _ => by simp only [Sf.compareVals, Ps.compareVals]
  | .row _ _ _, .str _ => by simp only [Sf.compareVals, Ps.compareVals]
  | .row _ _ _, .flt _ _ => by simp only [Sf.compareVals, Ps.compareVals]
  | .row _ _ _, .dec _ _ _ => by simp only [Sf.compareVals, Ps.compareVals]
  | .row _ _ _, .list _ => by simp only [Sf.compareVals, Ps.compareVals]
  | .row _ _ _, .dict _ _ => by simp only [Sf.compareVals, Ps.compareVals]
theorem compareAll_equiv (close : Int → Int → Bool) : ∀ xs ys : Vals, Sf.compareAll close xs ys = Ps.compareAll close xs ys
  | .cons a as, .cons b bs => by
    simp only [Sf.compareAll, Ps.compareAll, compareVals_equiv close a b, compareAll_equiv close as bs]
  | .nil, _ => by simp only [Sf.compareAll, Ps.compareAll]
  | .cons _ _, .nil => by simp only [Sf.compareAll, Ps.compareAll]
theorem compareDict_equiv (close : Int → Int → Bool) : ∀ (k1 : List String) (v1 : Vals) (k2 : List String) (v2 : Vals),
    Sf.compareDict close k1 v1 k2 v2 = Ps.compareDict close k1 v1 k2 v2
  | k :: ks, .cons v vs, k2, v2 => by
    simp only [Sf.compareDict, Ps.compareDict, compareDict_equiv close ks vs k2 v2]
    cases Py.lookup k k2 v2 with
    | none => rfl
    | some w => simp only [compareVals_equiv close v w]
  | [], _, _, _ => by simp only [Sf.compareDict, Ps.compareDict]
  | _ :: _, .nil, _, _ => by simp only [Sf.compareDict, Ps.compareDict]
end

theorem insertBy_equiv (x : Val) : ∀ l : List Val, Sf.insertBy Sf.repr x l = Ps.insertBy Ps.repr x l
  | [] => rfl
  | y :: ys => by simp only [Sf.insertBy, Ps.insertBy, repr_equiv, insertBy_equiv x ys]

theorem sortRows_equiv : ∀ l : List Val, Sf.sortRows l = Ps.sortRows l
  | [] => rfl
  | x :: xs => by
    have ih := sortRows_equiv xs
    simp only [Sf.sortRows, Ps.sortRows, List.foldr_cons] at ih ⊢
    rw [ih, insertBy_equiv]

theorem restLeft_equiv (close : Int → Int → Bool) : ∀ l : List Val, Sf.restLeft close l = Ps.restLeft close l
  | [] => rfl
  | a :: as => by simp only [Sf.restLeft, Ps.restLeft, Sf.compareRows, Ps.compareRows, restLeft_equiv close as]

theorem restRight_equiv (close : Int → Int → Bool) : ∀ l : List Val, Sf.restRight close l = Ps.restRight close l
  | [] => rfl
  | a :: as => by simp only [Sf.restRight, Ps.restRight, Sf.compareRows, Ps.compareRows, restRight_equiv close as]

theorem zipLongestAll_equiv (close : Int → Int → Bool) : ∀ a e : List Val,
    Sf.zipLongestAll close a e = Ps.zipLongestAll close a e
  | [], bs => by
    have h : zipLongest = true := by decide
    simp only [Sf.zipLongestAll, Ps.zipLongestAll, h, if_true, restRight_equiv]
  | x :: xs, [] => by
    have h : zipLongest = true := by decide
    simp only [Sf.zipLongestAll, Ps.zipLongestAll, h, if_true, restLeft_equiv]
  | x :: xs, y :: ys => by
    simp only [Sf.zipLongestAll, Ps.zipLongestAll, Sf.compareRows, Ps.compareRows, compareVals_equiv, zipLongestAll_equiv close xs ys]

/-- **C19_assert_equiv.** On the same two lists of rows, for every `checkRowOrder` setting and every closeness
    predicate (i.e. every rtol / atol), sqlframe's assertDataFrameEqual accepts exactly when PySpark's does. -/
theorem C19_assert_equiv (close : Int → Int → Bool) (checkRowOrder : Bool) (actual expected : List Val) :
    Sf.verdict close checkRowOrder actual expected = Ps.verdict close checkRowOrder actual expected := by
  have h : sortsBoth = true := by decide
  simp only [Sf.verdict, Ps.verdict, h, Bool.and_true, sortRows_equiv, zipLongestAll_equiv]

mutual
theorem compareDatatypes_equiv : ∀ a b : DType, Sf.compareDatatypes a b = Ps.compareDatatypes a b
  | .array e1 _, .array e2 _ => by simp only [Sf.compareDatatypes, Ps.compareDatatypes, compareDatatypes_equiv e1 e2]
  | .struct f1, .struct f2 => by simp only [Sf.compareDatatypes, Ps.compareDatatypes, compareFields_equiv f1 f2]
  | .atomic _, b => by cases b <;> simp only [Sf.compareDatatypes, Ps.compareDatatypes]
  | .map _ _ _, b => by cases b <;> simp only [Sf.compareDatatypes, Ps.compareDatatypes]
  | .array _ _, .atomic _ => by simp only [Sf.compareDatatypes, Ps.compareDatatypes]
  | .array _ _, .map _ _ _ => by simp only [Sf.compareDatatypes, Ps.compareDatatypes]
  | .array _ _, .struct _ => by simp only [Sf.compareDatatypes, Ps.compareDatatypes]
  | .struct _, .atomic _ => by simp only [Sf.compareDatatypes, Ps.compareDatatypes]
  | .struct _, .map _ _ _ => by simp only [Sf.compareDatatypes, Ps.compareDatatypes]
  | .struct _, .array _ _ => by simp only [Sf.compareDatatypes, Ps.compareDatatypes]
theorem compareFields_equiv : ∀ a b : SFields, Sf.compareFields a b = Ps.compareFields a b
  | .cons n1 d1 _ r1, .cons n2 d2 _ r2 => by
    simp only [Sf.compareFields, Ps.compareFields, compareDatatypes_equiv d1 d2, compareFields_equiv r1 r2]
  | .nil, .nil => rfl
  | .nil, .cons _ _ _ _ => rfl
  | .cons _ _ _ _, .nil => rfl
end

/-- **C19_schema_equiv.** assertSchemaEqual accepts the same pairs of schemas. -/
theorem C19_schema_equiv (a e : SFields) : Sf.schemaVerdict a e = Ps.schemaVerdict a e := by
  simp only [Sf.schemaVerdict, Ps.schemaVerdict, compareFields_equiv]

-- set every nullable / containsNull flag to `true`
mutual
def DType.strip : DType → DType
  | .atomic n => .atomic n
  | .array e _ => .array e.strip true
  | .map k v _ => .map k v true
  | .struct f => .struct f.strip
def SFields.strip : SFields → SFields
  | .nil => .nil
  | .cons n d _ r => .cons n d.strip true r.strip
end

theorem strip_length : ∀ f : SFields, f.strip.length = f.length
  | .nil => rfl
  | .cons _ _ _ r => by simp only [SFields.strip, SFields.length, strip_length r]

mutual
theorem compareDatatypes_strip : ∀ a b : DType, Sf.compareDatatypes a.strip b.strip = Sf.compareDatatypes a b
  | .array e1 _, .array e2 _ => by simp only [DType.strip, Sf.compareDatatypes, compareDatatypes_strip e1 e2]
  | .struct f1, .struct f2 => by
    simp only [DType.strip, Sf.compareDatatypes, compareFields_strip f1 f2, strip_length]
  | .atomic _, b => by cases b <;> simp only [DType.strip, Sf.compareDatatypes, DType.typeName]
  | .map _ _ _, b => by cases b <;> simp only [DType.strip, Sf.compareDatatypes, DType.typeName]
  | .array _ _, .atomic _ => by simp only [DType.strip, Sf.compareDatatypes, DType.typeName]
  | .array _ _, .map _ _ _ => by simp only [DType.strip, Sf.compareDatatypes, DType.typeName]
  | .array _ _, .struct _ => by simp only [DType.strip, Sf.compareDatatypes, DType.typeName]
  | .struct _, .atomic _ => by simp only [DType.strip, Sf.compareDatatypes, DType.typeName]
  | .struct _, .map _ _ _ => by simp only [DType.strip, Sf.compareDatatypes, DType.typeName]
  | .struct _, .array _ _ => by simp only [DType.strip, Sf.compareDatatypes, DType.typeName]
theorem compareFields_strip : ∀ a b : SFields, Sf.compareFields a.strip b.strip = Sf.compareFields a b
  | .cons n1 d1 _ r1, .cons n2 d2 _ r2 => by
    simp only [SFields.strip, Sf.compareFields, compareDatatypes_strip d1 d2, compareFields_strip r1 r2]
  | .nil, .nil => rfl
  | .nil, .cons _ _ _ _ => rfl
  | .cons _ _ _ _, .nil => rfl
end

/-- **C19_schema_ignores_nullable.** The schema verdict does not depend on any nullable / containsNull /
    valueContainsNull flag, at any depth. -/
theorem C19_schema_ignores_nullable (a e : SFields) : Sf.schemaVerdict a.strip e.strip = Sf.schemaVerdict a e := by
  simp only [Sf.schemaVerdict, strip_length, compareFields_strip]

/-! ## 7. non-vacuity -/

def exCtor : Ctor :=
  .factory ["a", "a", "b"]
    (.cons (.int 2) (.cons (.dec 2250000000 "Decimal('2.25')" "2.25")
      (.cons (.row true (.cons (.str "x") .nil) (.cons (.list (.cons (.int 3) .nil)) .nil)) .nil)))

def exOps : List Op :=
  [.getKey (.str "a"), .getAttr "b", .asDict true, .repr, .getIdx (-1), .getKey (.str "zz"), .contains (.str "a"), .pickle,
   .setAttr "a", .getAttr "__x"]

/-- a script that exercises duplicate names, a nested Row, a Decimal, errors of three kinds; the outcomes are not all
    errors and the two sides really differ before the float conversion -/
example : ((Sf.run exCtor exOps).map Out.abs).length = 11 ∧
    (match (Sf.run exCtor exOps)[3]? with | some (Out.val (Val.dict ks _)) => ks == ["a", "b"] | _ => false) = true ∧
    (match (Sf.run exCtor exOps)[6]? with | some (Out.err Err.rowError) => true | _ => false) = true ∧
    (match (Ps.run exCtor exOps)[6]? with | some (Out.err Err.psValueError) => true | _ => false) = true := by
  decide +kernel

example : Ctor.decimalFree (.kwargs ["name", "age"] (.cons (.str "Alice") (.cons (.int 11) .nil))) := rfl

/-- the verdict functions are not constant: a perturbed float is rejected or accepted depending on `close` -/
example :
    let r1 : Val := .row true (.cons (.str "a") .nil) (.cons (.flt 1500000000 "1.5") .nil)
    let r2 : Val := .row true (.cons (.str "a") .nil) (.cons (.flt 1500000100 "1.5000001") .nil)
    Sf.verdict (fun a b => a == b) false [r1] [r2] = false ∧ Sf.verdict (fun _ _ => true) false [r1] [r2] = true ∧
    Sf.verdict (fun a b => a == b) false [r1, r2] [r2, r1] = true ∧ Sf.verdict (fun a b => a == b) true [r1, r2] [r2, r1] = false := by
  decide +kernel

end Sqlframe.C19
