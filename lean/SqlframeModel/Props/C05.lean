/-
Props/C05.lean — property theorems for C05 (Column expressions denote the tree the user wrote under
SQL three-valued logic).

Model: Impl/C05Column.lean (`build`, driven by the regenerated `Gen.ColumnOps` through `theCfg`),
Impl/C05Engine.lean (the engine's operator-precedence parse of the rendered text, `engineTree`).
Full statement (`C05_full_statement`) vs what is proved (`C05_partial`): see the bottom of the file.
-/
import SqlframeModel.Lemmas.C05Fns
namespace Sqlframe
open C05

/-! ## obligations on the generated table (these break when column.py is edited in a property-breaking way) -/

/-- every operator method names the sqlglot class of the operation it stands for, the direct forms put
    `self` on the left and the reflected forms (`__radd__`, `__rsub__`, …, `__rand__`, `__ror__`) on the
    right, operands are un-aliased -/
theorem C05_table_ok : tableOK theCfg = true := by decide

/-- arithmetic and `&`/`|` results are wrapped in `Paren` (`paren=True`), `unary_op` parenthesises its operand -/
theorem C05_paren_flags : parenOK theCfg = true := by decide

/-! ## the theorems -/

/-- **Meaning.**  For every expression the user can write, the tree sqlframe builds — evaluated with the
    grouping the tree has, `Paren` and `Alias` transparent — has the value of exactly that expression
    under three-valued logic: operand order (incl. reflected forms), grouping, negation scope,
    string-is-literal. -/
theorem C05_meaning (env : Env) (e : PyExpr) : evalSql env (build theCfg e) = denote env e :=
  build_meaning theCfg C05_table_ok env e

/-- **Print/parse.**  The engine's grammar regroups the rendered text of a well-parenthesised tree into
    that same tree ("engine grouping = built grouping"). -/
theorem C05_print_parse (t : SqlExpr) (h : wellParen t = true) : engineTree t = some t :=
  engineTree_wellParen t h

/-- **Well-parenthesised, partial.**  Under the four grouping hypotheses the built tree is well-parenthesised. -/
theorem C05_wellParen_partial (e : PyExpr)
    (h1 : H_cmpOperandAtomic theCfg e = true) (h2 : H_predSubjectAtomic theCfg e = true)
    (h3 : H_reflectedBoolParen theCfg e = true) (h4 : H_betweenBoundUnaliased theCfg e = true) :
    wellParenTop (build theCfg e) = true := by
  rw [wellParenTop_eq]
  simp only [H_cmpOperandAtomic, H_predSubjectAtomic, H_reflectedBoolParen, H_betweenBoundUnaliased, allNodes_or] at h1 h2 h3 h4
  exact build_wellParen theCfg C05_table_ok C05_paren_flags e h1 h2 h3 h4

/-- **C05, partial.**  Inside the scope hypotheses, what the engine returns for `SELECT <expr>` on any row is
    the value of the user's expression. -/
theorem C05_partial (e : PyExpr) (env : Env) (h : inScope theCfg e = true) :
    engineValue env (build theCfg e) = some (denote env e) := by
  simp only [inScope, Bool.and_eq_true] at h
  obtain ⟨⟨⟨⟨h1, h2⟩, h3⟩, h4⟩, h5⟩ := h
  have hw := C05_wellParen_partial e h1 h2 h3 h4
  have hf : fnsOK (build theCfg e) = true := by
    simp only [H_endswithFunction, allNodes_or] at h5
    exact build_fnsOK theCfg C05_table_ok e h5
  simp [engineValue, engineTop_wellParenTop _ hw, hf, C05_meaning]

/-- the statement at full strength: no scope hypotheses -/
def C05_full_statement : Prop :=
  ∀ (e : PyExpr) (env : Env), engineValue env (build theCfg e) = some (denote env e)

/-- once the generated flags say every cause is repaired in the source, the full statement holds -/
theorem C05_full_of_repaired
    (h : (fixCmp theCfg && fixSubj theCfg && fixRefl theCfg && fixBound theCfg && fixEndswith theCfg) = true) :
    C05_full_statement := by
  intro e env
  simp only [Bool.and_eq_true] at h
  apply C05_partial
  simp [inScope, H_cmpOperandAtomic, H_predSubjectAtomic, H_reflectedBoolParen, H_betweenBoundUnaliased,
    H_endswithFunction, h.1.1.1.1, h.1.1.1.2, h.1.1.2, h.1.2, h.2]

/-! ## truth tables: the whole pipeline (build, engine parse, evaluation) against the SQL tables written out -/

def tv : List Val := [.null, .bool true, .bool false]
def env2 (a b : Val) : Env := fun n => if n = "p" then a else if n = "q" then b else .null
def table2 (e : PyExpr) : List (Option Val) :=
  tv.flatMap fun a => tv.map fun b => engineValue (env2 a b) (build theCfg e)

/-- rows: p = NULL, TRUE, FALSE; columns: q = NULL, TRUE, FALSE -/
theorem C05_truth_tables :
    table2 (.logic .and (.col "p") (.col "q"))
      = [some .null, some .null, some (.bool false),
         some .null, some (.bool true), some (.bool false),
         some (.bool false), some (.bool false), some (.bool false)]
    ∧ table2 (.logic .or (.col "p") (.col "q"))
      = [some .null, some (.bool true), some .null,
         some (.bool true), some (.bool true), some (.bool true),
         some .null, some (.bool true), some (.bool false)]
    ∧ table2 (.not (.logic .and (.col "p") (.col "q")))
      = [some .null, some .null, some (.bool true),
         some .null, some (.bool false), some (.bool true),
         some (.bool true), some (.bool true), some (.bool true)]
    ∧ table2 (.eqNullSafe (.col "p") (.col "q"))
      = [some (.bool true), some (.bool false), some (.bool false),
         some (.bool false), some (.bool true), some (.bool false),
         some (.bool false), some (.bool false), some (.bool true)]
    ∧ table2 (.logicL .and (.bool true) (.isNull (.col "q")))
      = [some (.bool true), some (.bool false), some (.bool false),
         some (.bool true), some (.bool false), some (.bool false),
         some (.bool true), some (.bool false), some (.bool false)] := by
  decide

/-! ## counterexamples: each hypothesis is needed while its cause is in the source (witnesses replayed on the real code) -/

def envW : Env := fun n =>
  if n = "p" then .bool false else if n = "q" then .bool true
  else if n = "x" then .null else if n = "y" then .int 0 else if n = "s" then .str "a" else .null

/-- `p == x.isNull()` renders `p = x IS NULL`, which the engine groups as `(p = x) IS NULL` -/
def wit_cmpOperand : PyExpr := .cmp .eq (.col "p") (.isNull (.col "x"))
/-- `p == (x == y)` renders `p = x = y`: a syntax error -/
def wit_cmpChain : PyExpr := .cmp .eq (.col "p") (.cmp .eq (.col "x") (.col "y"))
/-- `(~q).isNull()` renders `NOT (q) IS NULL`, grouped `NOT ((q) IS NULL)` -/
def wit_predSubject : PyExpr := .isNull (.not (.col "q"))
/-- `p & (True | q)` renders `(p AND TRUE OR q)`, grouped `((p AND TRUE) OR q)` -/
def wit_reflected : PyExpr := .logic .and (.col "p") (.logicL .or (.bool true) (.col "q"))
/-- `y.between(x.alias('lo'), 2)` renders `y BETWEEN x AS lo AND 2`: a syntax error -/
def wit_betweenAlias : PyExpr := .between (.col "y") (.alias (.col "x") "lo") (.lit (.int 2))
/-- `s.endswith('a')` renders `ENDSWITH(s, 'a')`, a function DuckDB does not have -/
def wit_endswith : PyExpr := .strFn .endswith (.col "s") (.lit (.str "a"))

theorem C05_cex_cmpOperandAtomic : fixCmp theCfg = false →
    engineValue envW (build theCfg wit_cmpOperand) = some (.bool true) ∧ denote envW wit_cmpOperand = .bool false
    ∧ engineValue envW (build theCfg wit_cmpChain) = none ∧ denote envW wit_cmpChain = .null := by
  decide

theorem C05_cex_predSubjectAtomic : fixSubj theCfg = false →
    engineValue envW (build theCfg wit_predSubject) = some (.bool true) ∧ denote envW wit_predSubject = .bool false := by
  decide

theorem C05_cex_reflectedBoolParen : fixRefl theCfg = false →
    engineValue envW (build theCfg wit_reflected) = some (.bool true) ∧ denote envW wit_reflected = .bool false := by
  decide

theorem C05_cex_betweenBoundUnaliased : fixBound theCfg = false →
    engineValue envW (build theCfg wit_betweenAlias) = none ∧ denote envW wit_betweenAlias = .null := by
  decide

theorem C05_cex_endswithFunction : fixEndswith theCfg = false →
    engineValue envW (build theCfg wit_endswith) = none ∧ denote envW wit_endswith = .bool true := by
  decide

/-- the witnesses are exactly the inputs the hypotheses exclude (while the causes are in the source) -/
theorem C05_cex_out_of_scope :
    (fixCmp theCfg = false → H_cmpOperandAtomic theCfg wit_cmpOperand = false ∧ H_cmpOperandAtomic theCfg wit_cmpChain = false)
    ∧ (fixSubj theCfg = false → H_predSubjectAtomic theCfg wit_predSubject = false)
    ∧ (fixRefl theCfg = false → H_reflectedBoolParen theCfg wit_reflected = false)
    ∧ (fixBound theCfg = false → H_betweenBoundUnaliased theCfg wit_betweenAlias = false)
    ∧ (fixEndswith theCfg = false → H_endswithFunction theCfg wit_endswith = false) := by
  decide

/-! ## non-vacuity: non-trivial programs meet the hypotheses -/

/-- `(((x + 1) * 2 > y) & ~s.like('a%')) | (3 - x).isNull()` aliased — in scope whatever the flags are -/
def ex_inScope : PyExpr :=
  .alias (.logic .or
    (.logic .and (.cmp .gt (.arith .mul (.arith .add (.col "x") (.lit (.int 1))) (.lit (.int 2))) (.col "y"))
                 (.not (.like (.col "s") "a%")))
    (.isNull (.arithL .sub (.int 3) (.col "x")))) "r"

example : inScope theCfg ex_inScope = true := by decide
example : engineValue envW (build theCfg ex_inScope) = some (.bool true) := by decide
example : wellParenTop (build theCfg ex_inScope) = true := by decide
/-- `when(p, x).when(q, -y).otherwise(1 % y)` compared with a literal on the left: `0 <= …` -/
def ex_case : PyExpr :=
  .cmpL .le (.int 0) (.when (.col "p") (.col "x") (.when (.col "q") (.neg (.col "y")) (.otherwise (.arithL .mod (.int 1) (.col "y")))))
example : inScope theCfg ex_case = true := by decide
example : engineValue envW (build theCfg ex_case) = some (.bool true) := by decide
example : evalSql envW (build theCfg ex_case) = .bool true ∧ denote envW ex_case = .bool true := by decide
example : ∃ t, wellParen t = true ∧ level t < atomLevel ∧ engineTree t = some t :=
  ⟨build theCfg (.cmp .lt (.col "x") (.col "y")), by decide, by decide, by decide⟩

end Sqlframe
