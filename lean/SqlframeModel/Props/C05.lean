/-
Props/C05.lean — property theorems for C05 (Column expressions denote the tree the user wrote under
SQL three-valued logic).

Model: Impl/C05Column.lean (`build`, driven by the regenerated `Gen.ColumnOps` through `theCfg`),
Impl/C05Lit.lean (how a plain Python value becomes a literal: `Column._lit`, `Column(v)`, `functions.lit`,
the `@meta` alias — driven by the regenerated `Gen.ColumnLit` — and how the engine reads the literal's text),
Impl/C05Engine.lean (the engine's operator-precedence parse of the rendered text, `engineTree`).
Full statement (`C05_full_statement`) vs what is proved (`C05_partial`): see the bottom of the file.
-/
import SqlframeModel.Lemmas.C05Fns
import SqlframeModel.Lemmas.C05Lit
namespace Sqlframe
open C05

/-! ## obligations on the generated table (these break when column.py is edited in a property-breaking way) -/

/-- every operator method names the sqlglot class of the operation it stands for, the direct forms put
    `self` on the left and the reflected forms (`__radd__`, `__rsub__`, …, `__rand__`, `__ror__`) on the
    right, operands are un-aliased -/
theorem C05_table_ok : tableOK theCfg = true := by decide

/-- arithmetic and `&`/`|` results are wrapped in `Paren` (`paren=True`), `unary_op` parenthesises its operand -/
theorem C05_paren_flags : parenOK theCfg = true := by decide

/-- the literal decision chains: every scalar reaches `exp.convert` except NaN, which is written as a cast of the
    string 'NaN' to DOUBLE; `lit(str)` is a string literal; `Column(v)` sends a non-str value through `_lit` -/
theorem C05_lit_chain_ok : litChainOK theLitCfg = true := by decide

/-! ## literals -/

/-- **ints round-trip.**  The engine's lexer reads Python's `str(i)` — the text `Literal.number(i)` holds — back as `i`,
    for every integer. -/
theorem C05_lit_int_roundtrip (i : Int) : readNumber (showInt i) = some (.int i) := readNumber_showInt i

/-- **floats round-trip.**  For every finite Python float (sign, shortest round-trip digits `ds`, decimal point
    position `pt`) the engine's lexer reads `repr` — exponent form `d.ddde±XX` when `pt > 16 ∨ pt < -3`, else
    `0.00ddd` / `ddd.ddd` / `ddd000.0` — back as exactly the decimal `0.ds · 10^pt`: no digit is dropped, the point
    and the exponent are where they belong. -/
theorem C05_lit_float_roundtrip (neg : Bool) (ds : List Nat) (pt : Int) (hne : ds ≠ []) (hd : ∀ d ∈ ds, d < 10) :
    readNumber (floatRepr neg ds pt) = some (pyValue (.float (.fin neg ds pt))) :=
  readNumber_floatRepr neg ds pt hne hd

/-- **Literals are faithful.**  At every call site, whichever coercion of `Gen.ColumnLit` it uses (`Column._lit`,
    `Column(v)`, `functions.lit`), the literal sqlframe writes for a None / bool / int / finite float / NaN / str is
    read back by the engine as that value. -/
theorem C05_lit_readsBack (k : Gen.Coerce) (v : PyVal) (hwf : v.wf = true) (hfin : v.finite = true) :
    readsBack (coerceNode theLitCfg k v) v = true :=
  coerceNode_readsBack theLitCfg C05_lit_chain_ok k v hwf hfin

/-- **Literals incl. ±inf.**  … and an infinite float as well, at every call site whose coercion handles it. -/
theorem C05_lit_readsBack_via (k : Gen.Coerce) (v : PyVal) (hwf : v.wf = true) (hi : infVia theLitCfg k v = true) :
    readsBack (coerceNode theLitCfg k v) v = true :=
  coerceNode_readsBack_via theLitCfg C05_lit_chain_ok k v hwf hi

/-- the plain-operand routes (`Column._lit`, and `Column(v)` for a non-str value) write ±inf as a cast of
    'Infinity' / '-Infinity' to DOUBLE, which the engine reads back as that infinity -/
theorem C05_lit_inf_operand : infHandledVia theLitCfg .rawLit = true ∧ infHandledVia theLitCfg .strRawElseInit = true := by
  decide

/-- per node: the literals of a node whose ±inf go through handling coercions are read back -/
theorem litAt_of_infAt (n : PyExpr) (hw : wfAt n = true) (hi : infAt theCfg n = true) : litAt theCfg n = true := by
  cases n <;> simp only [litAt] <;> simp only [wfAt, pyValsAt, List.all_cons, List.all_nil, Bool.and_true] at hw
    <;> simp only [infAt] at hi
  case lit v => exact C05_lit_readsBack_via .litFn v hw hi
  case raw s v => exact C05_lit_readsBack_via _ v hw hi
  case arithL op v b => exact C05_lit_readsBack_via _ v hw hi
  case cmpL op v b => exact C05_lit_readsBack_via _ v hw hi
  case logicL op v b => exact C05_lit_readsBack_via _ v hw hi
  case isin a vs =>
    rw [List.all_eq_true] at hw hi ⊢
    intro v hv
    exact C05_lit_readsBack_via _ v (hw v hv) (hi v hv)
  case like a p => exact C05_lit_readsBack _ (.str p) hw rfl

/-- **Every literal of an in-scope program is read back.**  Under `H_floatLitFinite` (every ±inf of the program goes
    through a coercion that handles it) every plain Python value of the program — at whatever call site — is written
    as a literal whose text the engine reads as exactly that value. -/
theorem C05_lits_readBack (e : PyExpr) (hwf : allNodes wfAt e = true) (h : H_floatLitFinite theCfg e = true) :
    allNodes (litAt theCfg) e = true := by
  unfold H_floatLitFinite at h
  have key := litAt_of_infAt
  induction e <;> simp_all [allNodes]

/-! ## the theorems -/

/-- **Meaning.**  For every expression the user can write, the tree sqlframe builds — evaluated with the
    grouping the tree has, `Paren` and `Alias` transparent — has the value of exactly that expression
    under three-valued logic: operand order (incl. reflected forms), grouping, negation scope,
    string-is-literal. -/
theorem C05_meaning (env : Env) (e : PyExpr) (hwf : allNodes wfAt e = true) (hl : H_floatLitFinite theCfg e = true) :
    evalSql env (build theCfg e) = denote env e :=
  build_meaning theCfg C05_table_ok env e (C05_lits_readBack e hwf hl)

/-- **Print/parse.**  The engine's grammar regroups the rendered text of a well-parenthesised tree into
    that same tree ("engine grouping = built grouping"). -/
theorem C05_print_parse (t : SqlExpr) (h : wellParen t = true) : engineTree t = some t :=
  engineTree_wellParen t h

/-- **Well-parenthesised, partial.**  Under the four grouping hypotheses the built tree is well-parenthesised. -/
theorem C05_wellParen_partial (e : PyExpr)
    (h1 : H_cmpOperandAtomic theCfg e = true) (h2 : H_predSubjectAtomic theCfg e = true)
    (h3 : H_reflectedBoolParen theCfg e = true) (h4 : H_betweenBoundUnaliased theCfg e = true) :
    wellParenTop (build theCfg e) = true := by
  rw [wellParenTop_eq]
  simp only [H_cmpOperandAtomic, H_predSubjectAtomic, H_reflectedBoolParen, H_betweenBoundUnaliased, allNodes_or] at h1 h2 h3 h4
  exact build_wellParen theCfg C05_table_ok C05_paren_flags e h1 h2 h3 h4

/-- **C05, partial.**  Inside the scope hypotheses, what the engine returns for `SELECT <expr>` on any row is
    the value of the user's expression. -/
theorem C05_partial (e : PyExpr) (env : Env) (hwf : allNodes wfAt e = true) (h : inScope theCfg e = true) :
    engineValue env (build theCfg e) = some (denote env e) := by
  simp only [inScope, Bool.and_eq_true] at h
  obtain ⟨⟨⟨⟨⟨h1, h2⟩, h3⟩, h4⟩, h5⟩, h6⟩ := h
  have hw := C05_wellParen_partial e h1 h2 h3 h4
  have hf : fnsOK (build theCfg e) = true := by
    simp only [H_endswithFunction, allNodes_or] at h5
    exact build_fnsOK theCfg C05_table_ok e h5
  have hl : litsOK (build theCfg e) = true := build_litsOK theCfg e (C05_lits_readBack e hwf h6)
  simp [engineValue, engineTop_wellParenTop _ hw, hf, hl, C05_meaning env e hwf h6]

/-- the statement at full strength: no scope hypotheses (`wfAt` is the representation invariant "a float is given by
    genuine decimal digits", not a restriction on programs) -/
def C05_full_statement : Prop :=
  ∀ (e : PyExpr) (env : Env), allNodes wfAt e = true → engineValue env (build theCfg e) = some (denote env e)

/-- once the generated flags say every cause is repaired in the source — and the regenerated literal chains write ±inf
    in a way the engine reads back — the full statement holds -/
theorem C05_full_of_repaired
    (h : (fixCmp theCfg && fixSubj theCfg && fixRefl theCfg && fixBound theCfg && fixEndswith theCfg) = true)
    (hinf : infHandled theLitCfg = true) :
    C05_full_statement := by
  intro e env hwf
  simp only [Bool.and_eq_true] at h
  apply C05_partial e env hwf
  have hvia : ∀ k, infHandledVia theCfg.lit k = true := by
    simp only [infHandled, Bool.and_eq_true] at hinf
    intro k; cases k
    · exact hinf.1.1
    · exact hinf.1.2
    · exact hinf.2
  have hl : H_floatLitFinite theCfg e = true := by
    unfold H_floatLitFinite
    have key : ∀ n, infAt theCfg n = true := by
      intro n
      cases n <;> simp [infAt, infVia, hvia]
    clear h hwf hinf
    induction e <;> simp_all [allNodes]
  simp [inScope, H_cmpOperandAtomic, H_predSubjectAtomic, H_reflectedBoolParen, H_betweenBoundUnaliased,
    H_endswithFunction, hl, h.1.1.1.1, h.1.1.1.2, h.1.1.2, h.1.2, h.2]

/-! ## truth tables: the whole pipeline (build, engine parse, evaluation) against the SQL tables written out -/

def tv : List CVal := [.null, .bool true, .bool false]
def env2 (a b : CVal) : Env := fun n => if n = "p" then a else if n = "q" then b else .null
def table2 (e : PyExpr) : List (Option CVal) :=
  tv.flatMap fun a => tv.map fun b => engineValue (env2 a b) (build theCfg e)

/-- rows: p = NULL, TRUE, FALSE; columns: q = NULL, TRUE, FALSE -/
theorem C05_truth_tables :
    table2 (.logic .and (.col "p") (.col "q"))
      = [some .null, some .null, some (.bool false),
         some .null, some (.bool true), some (.bool false),
         some (.bool false), some (.bool false), some (.bool false)]
    ∧ table2 (.logic .or (.col "p") (.col "q"))
      = [some .null, some (.bool true), some .null,
         some (.bool true), some (.bool true), some (.bool true),
         some .null, some (.bool true), some (.bool false)]
    ∧ table2 (.not (.logic .and (.col "p") (.col "q")))
      = [some .null, some .null, some (.bool true),
         some .null, some (.bool false), some (.bool true),
         some (.bool true), some (.bool true), some (.bool true)]
    ∧ table2 (.eqNullSafe (.col "p") (.col "q"))
      = [some (.bool true), some (.bool false), some (.bool false),
         some (.bool false), some (.bool true), some (.bool false),
         some (.bool false), some (.bool false), some (.bool true)]
    ∧ table2 (.logicL .and (.bool true) (.isNull (.col "q")))
      = [some (.bool true), some (.bool false), some (.bool false),
         some (.bool true), some (.bool false), some (.bool false),
         some (.bool true), some (.bool false), some (.bool false)] := by
  decide

/-! ## counterexamples: each hypothesis is needed while its cause is in the source (witnesses replayed on the real code) -/

def envW : Env := fun n =>
  if n = "p" then .bool false else if n = "q" then .bool true
  else if n = "x" then .null else if n = "y" then .int 0 else if n = "s" then .str "a"
  else if n = "d" then .dbl (.fin 4 0) else .null

/-- `p == x.isNull()` renders `p = x IS NULL`, which the engine groups as `(p = x) IS NULL` -/
def wit_cmpOperand : PyExpr := .cmp .eq (.col "p") (.isNull (.col "x"))
/-- `p == (x == y)` renders `p = x = y`: a syntax error -/
def wit_cmpChain : PyExpr := .cmp .eq (.col "p") (.cmp .eq (.col "x") (.col "y"))
/-- `(~q).isNull()` renders `NOT (q) IS NULL`, grouped `NOT ((q) IS NULL)` -/
def wit_predSubject : PyExpr := .isNull (.not (.col "q"))
/-- `p & (True | q)` renders `(p AND TRUE OR q)`, grouped `((p AND TRUE) OR q)` -/
def wit_reflected : PyExpr := .logic .and (.col "p") (.logicL .or (.bool true) (.col "q"))
/-- `y.between(x.alias('lo'), 2)` renders `y BETWEEN x AS lo AND 2`: a syntax error -/
def wit_betweenAlias : PyExpr := .between (.col "y") (.alias (.col "x") "lo") (.lit (.int 2))
/-- `s.endswith('a')` renders `ENDSWITH(s, 'a')`, a function DuckDB does not have -/
def wit_endswith : PyExpr := .strFn .endswith (.col "s") (.lit (.str "a"))

/-- `lit(float('-inf'))` is the *string* '-inf' -/
def wit_infLit : PyExpr := .lit (.float (.inf true))
/-- `when(p, 1.5).otherwise(float('inf'))` — `otherwise` goes through `lit` -/
def wit_infOtherwise : PyExpr :=
  .when (.col "p") (.raw .when (.float (.fin false [1, 5] 1))) (.otherwise (.raw .otherwise (.float (.inf false))))

theorem C05_cex_floatLitFinite : infHandledVia theLitCfg .litFn = false →
    engineValue envW (build theCfg wit_infLit) = some (.str "-inf") ∧ denote envW wit_infLit = .dbl .ninf
    ∧ engineValue envW (build theCfg wit_infOtherwise) = some (.str "inf") ∧ denote envW wit_infOtherwise = .dbl .pinf := by
  decide

theorem C05_cex_cmpOperandAtomic : fixCmp theCfg = false →
    engineValue envW (build theCfg wit_cmpOperand) = some (.bool true) ∧ denote envW wit_cmpOperand = .bool false
    ∧ engineValue envW (build theCfg wit_cmpChain) = none ∧ denote envW wit_cmpChain = .null := by
  decide

theorem C05_cex_predSubjectAtomic : fixSubj theCfg = false →
    engineValue envW (build theCfg wit_predSubject) = some (.bool true) ∧ denote envW wit_predSubject = .bool false := by
  decide

theorem C05_cex_reflectedBoolParen : fixRefl theCfg = false →
    engineValue envW (build theCfg wit_reflected) = some (.bool true) ∧ denote envW wit_reflected = .bool false := by
  decide

theorem C05_cex_betweenBoundUnaliased : fixBound theCfg = false →
    engineValue envW (build theCfg wit_betweenAlias) = none ∧ denote envW wit_betweenAlias = .null := by
  decide

theorem C05_cex_endswithFunction : fixEndswith theCfg = false →
    engineValue envW (build theCfg wit_endswith) = none ∧ denote envW wit_endswith = .bool true := by
  decide

/-- the witnesses are exactly the inputs the hypotheses exclude (while the causes are in the source) -/
theorem C05_cex_out_of_scope :
    (fixCmp theCfg = false → H_cmpOperandAtomic theCfg wit_cmpOperand = false ∧ H_cmpOperandAtomic theCfg wit_cmpChain = false)
    ∧ (fixSubj theCfg = false → H_predSubjectAtomic theCfg wit_predSubject = false)
    ∧ (fixRefl theCfg = false → H_reflectedBoolParen theCfg wit_reflected = false)
    ∧ (fixBound theCfg = false → H_betweenBoundUnaliased theCfg wit_betweenAlias = false)
    ∧ (fixEndswith theCfg = false → H_endswithFunction theCfg wit_endswith = false)
    ∧ (infHandledVia theLitCfg .litFn = false → H_floatLitFinite theCfg wit_infLit = false ∧ H_floatLitFinite theCfg wit_infOtherwise = false) := by
  decide

/-! ## non-vacuity: non-trivial programs meet the hypotheses -/

/-- `(((x + 1) * 2 > y) & ~s.like('a%')) | (3 - x).isNull()` aliased — in scope whatever the flags are -/
def ex_inScope : PyExpr :=
  .alias (.logic .or
    (.logic .and (.cmp .gt (.arith .mul (.arith .add (.col "x") (.lit (.int 1))) (.lit (.int 2))) (.col "y"))
                 (.not (.like (.col "s") "a%")))
    (.isNull (.arithL .sub (.int 3) (.col "x")))) "r"

example : inScope theCfg ex_inScope = true := by decide
example : engineValue envW (build theCfg ex_inScope) = some (.bool true) := by decide
example : wellParenTop (build theCfg ex_inScope) = true := by decide
/-- `when(p, x).when(q, -y).otherwise(1 % y)` compared with a literal on the left: `0 <= …` -/
def ex_case : PyExpr :=
  .cmpL .le (.int 0) (.when (.col "p") (.col "x") (.when (.col "q") (.neg (.col "y")) (.otherwise (.arithL .mod (.int 1) (.col "y")))))
example : inScope theCfg ex_case = true := by decide
example : engineValue envW (build theCfg ex_case) = some (.bool true) := by decide
example : evalSql envW (build theCfg ex_case) = .bool true ∧ denote envW ex_case = .bool true := by decide
/-- `((d + 1.234e-05) * 2 < 1e+16 - f) & d.isin(2.5e-07, None) | (-1e-09 <= d)`, Python floats in every spelling -/
def ex_doubles : PyExpr :=
  .logic .or
    (.logic .and
      (.cmp .lt (.arith .mul (.arith .add (.col "d") (.raw .binary (.float (.fin false [1, 2, 3, 4] (-4))))) (.raw .binary (.int 2)))
                (.arithL .sub (.float (.fin false [1] 17)) (.col "f")))
      (.isin (.col "d") [.float (.fin false [2, 5] (-6)), .none]))
    (.cmpL .le (.float (.fin true [1] (-8))) (.col "d"))
example : inScope theCfg ex_doubles = true := by decide
example : allNodes wfAt ex_doubles = true ∧ allNodes finiteAt ex_doubles = true := by decide
example : engineValue envW (build theCfg ex_doubles) = some (.bool true) ∧ denote envW ex_doubles = .bool true := by decide
example : (rawLit theLitCfg (.float (.fin false [2, 5] (-6)))) = .tok (.number "2.5e-07")
    ∧ (rawLit theLitCfg (.float (.fin false [1] 17))) = .tok (.number "1e+16")
    ∧ (rawLit theLitCfg (.float (.fin true [1, 2, 3, 4, 5, 6, 7, 8, 9] 6))) = .tok (.number "-123456.789")
    ∧ (rawLit theLitCfg (.float .nan)) = .cast (.string "NaN") "DOUBLE" := by decide
-- the round-trip theorems at work: the four layouts of `repr`, a negative exponent-form float, an int beyond 2^63
example : readNumber (floatRepr false [2, 5] (-6)) = some (.dbl (.fin 25 (-8))) ∧ String.ofList (floatRepr false [2, 5] (-6)) = "2.5e-07" := by decide
example : readNumber (floatRepr false [1, 2, 3] (-2)) = some (.dbl (.fin 123 (-5))) ∧ String.ofList (floatRepr false [1, 2, 3] (-2)) = "0.00123" := by decide
example : readNumber (floatRepr true [1, 2, 3, 4] 2) = some (.dbl (.fin (-1234) (-2))) ∧ String.ofList (floatRepr true [1, 2, 3, 4] 2) = "-12.34" := by decide
example : readNumber (floatRepr false [1, 2] 5) = some (.dbl (.fin 12 3)) ∧ String.ofList (floatRepr false [1, 2] 5) = "12000.0" := by decide
example : readNumber (showInt (-9223372036854775809)) = some (.int (-9223372036854775809)) := by decide
example : (PyVal.float (.fin true [1, 5] (-7))).wf = true ∧ (PyVal.float (.fin true [1, 5] (-7))).finite = true
    ∧ readsBack (coerceNode theLitCfg .strRawElseInit (.float (.fin true [1, 5] (-7)))) (.float (.fin true [1, 5] (-7))) = true := by decide
example : allNodes wfAt ex_doubles = true ∧ H_floatLitFinite theCfg ex_doubles = true ∧ allNodes (litAt theCfg) ex_doubles = true := by decide
/-- `(d < float('inf')) & d.between(float('-inf'), 4.0) & (float('inf') > d * float('inf')).isNull()`: infinities as plain operands are in scope -/
def ex_infOperands : PyExpr :=
  .logic .and
    (.logic .and (.cmp .lt (.col "d") (.raw .binary (.float (.inf false))))
                 (.between (.col "d") (.raw .between (.float (.inf true))) (.raw .between (.float (.fin false [4] 1)))))
    (.isNotNull (.cmpL .gt (.float (.inf false)) (.arith .mul (.col "d") (.raw .binary (.float (.inf false))))))
example : inScope theCfg ex_infOperands = true ∧ allNodes wfAt ex_infOperands = true := by decide
example : engineValue envW (build theCfg ex_infOperands) = some (.bool true) ∧ denote envW ex_infOperands = .bool true := by decide
example : rawLit theLitCfg (.float (.inf true)) = .cast (.string "-Infinity") "DOUBLE" := by decide
example : ∃ t, wellParen t = true ∧ level t < atomLevel ∧ engineTree t = some t :=
  ⟨build theCfg (.cmp .lt (.col "x") (.col "y")), by decide, by decide, by decide⟩

end Sqlframe
