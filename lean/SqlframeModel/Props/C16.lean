/-
Props/C16.lean — property theorems for C16 (functions accept a column name wherever PySpark does).

The quantifier of C16 is  (function × engine × ColumnOrName position)  ×  every name string.
* the finite part is `Gen.cells` (regenerated on every run by running the real functions with a tracing
  `str`) and is decided by `decide +kernel` (`C16_table_check`);
* the unbounded part (every name, every surrounding expression) is `C16_lift`.
Full statement: `C16_full_statement`.  Proved: `C16_partial` under the named scope hypotheses
`H_rawOperator`, `H_litOnName`, `H_formatAsText`, `H_parsedName` (Impl/C16.lean), each with a counterexample
theorem whose witness the check replays on the real code.
-/
import SqlframeModel.Impl.C16
namespace Sqlframe
open Gen C16

/-- `Column.ensure_col("n")` is the reference to column `n` (depends on the generated `colOnStr`). -/
theorem C16_ensureCol_str (parse : String → Ex) (n : String) : ensureCol parse (.str n) = .column n := by
  simp [ensureCol, colFn, routeStr, colOnStr]

/-- `Column.ensure_col(c)` gives a Column back unchanged (depends on `colOnOther`, `columnCtorUnwrapsColumn`). -/
theorem C16_ensureCol_col (parse : String → Ex) (e : Ex) : ensureCol parse (.colObj e) = e := by
  simp [ensureCol, colFn, colOnOther, columnCtor]

/-- The unbounded part: where the string meets `ensure_col`, the name and `col(name)` give the same
    expression — PySpark's — for EVERY name `n`, under EVERY surrounding expression `k`, whatever the parser does. -/
theorem C16_lift (parse : String → Ex) (c : Coercion) (hc : c = .ensureCol) (k : Ex → Ex) (n : String) :
    resultWith parse k c (.str n) = resultWith parse k c (.colObj (.column n)) ∧
    resultWith parse k c (.str n) = specResult k n := by
  subst hc
  simp [resultWith, coerce, specResult, C16_ensureCol_str, C16_ensureCol_col]

/-- Where the string meets `lit` / `_lit` / an operator, the two forms differ for every name (the context
    `k` only has to keep different arguments apart). -/
theorem C16_literal_differs (parse : String → Ex) (k : Ex → Ex) (hk : ∀ a b, k a = k b → a = b) (n : String) :
    resultWith parse k .literal (.str n) ≠ resultWith parse k .literal (.colObj (.column n)) := by
  simp only [resultWith, coerce, litFn, routeStr, litOnStr, Option.map_some, ne_eq, Option.some.injEq]
  intro h
  exact Ex.noConfusion (hk _ _ h)

/-- Where the parameter is consumed as Python text (a format), BOTH forms become a string literal, never
    PySpark's reference to the column; they are the same literal exactly for identifier-like names. -/
theorem C16_text_literal (parse : String → Ex) (k : Ex → Ex) (hk : ∀ a b, k a = k b → a = b) (n : String) :
    resultWith parse k .text (.str n) ≠ specResult k n ∧
    resultWith parse k .text (.colObj (.column n)) ≠ specResult k n ∧
    (resultWith parse k .text (.str n) = resultWith parse k .text (.colObj (.column n)) ↔ identText n = n) := by
  refine ⟨?_, ?_, ?_⟩
  · simp only [resultWith, coerce, specResult, Option.map_some, ne_eq, Option.some.injEq]
    intro h; exact Ex.noConfusion (hk _ _ h)
  · simp only [resultWith, coerce, specResult, Option.map_some, ne_eq, Option.some.injEq]
    intro h; exact Ex.noConfusion (hk _ _ h)
  · simp only [resultWith, coerce, Ex.text, Option.map_some, Option.some.injEq]
    constructor
    · intro h; have := hk _ _ h; simpa using this.symm
    · intro h; rw [h]

/-- Where the string form raises, it yields no expression while the Column form yields PySpark's. -/
theorem C16_none_fails (parse : String → Ex) (k : Ex → Ex) (n : String) :
    resultWith parse k .none (.str n) = none ∧ resultWith parse k .none (.colObj (.column n)) = specResult k n := by
  simp [resultWith, coerce, specResult]

/-- Where the string meets `Column(name)`, the two forms agree exactly on the names whose text sqlglot
    parses to a plain reference to that column (`c` does, `a-b` and `a b` do not). -/
theorem C16_parsed_iff (parse : String → Ex) (k : Ex → Ex) (hk : ∀ a b, k a = k b → a = b) (n : String) :
    resultWith parse k .parsed (.str n) = resultWith parse k .parsed (.colObj (.column n)) ↔ parse n = .column n := by
  simp only [resultWith, coerce, columnCtor, routeStr, columnCtorOnStr, Option.map_some, Option.some.injEq]
  constructor
  · intro h; exact hk _ _ h
  · intro h; rw [h]

/-- Root cause of `H_rawOperator`: Python evaluates `"n" + lit(1)` as `lit(1).__radd__("n")`, and
    `inverse_binary_op` makes a string literal of a `str` operand (generated `inverseBinaryOpOnStr`). -/
theorem C16_rawOperator_root (parse : String → Ex) (n : String) :
    log1pFromLog parse (.str n) = .app "LN" [.app "+" [.strLit n, .app "lit" [.strLit "1"]]] ∧
    log1pFromLog parse (.str n) ≠ log1pFromLog parse (.colObj (.column n)) ∧
    dateSubDays parse (.str n) ≠ dateSubDays parse (.colObj (.column n)) := by
  refine ⟨by simp [log1pFromLog, pyAdd, operand, routeStr, inverseBinaryOpOnStr], ?_, ?_⟩
  · simp [log1pFromLog, pyAdd, operand, routeStr, inverseBinaryOpOnStr]
  · simp [dateSubDays, pyMul, operand, routeStr, inverseBinaryOpOnStr]

/-- The finite part, decided by the kernel over the regenerated table: every cell either meets `ensure_col`
    or is one of the listed cells. -/
theorem C16_table_check : cells.all cellOk = true := by decide +kernel

private theorem listed_false_of_inScope (c : Cell) (h : InScope c) : listed c = false := by
  obtain ⟨h1, h2, h3, h4⟩ := h
  unfold H_rawOperator at h1; unfold H_litOnName at h2; unfold H_formatAsText at h3; unfold H_parsedName at h4
  simp [listed, h1, h2, h3, h4]

/-- `C16_table_partial`: every in-scope row of the generated table meets `ensure_col`. -/
theorem C16_table_partial : ∀ c ∈ cells, InScope c → c.coercion = .ensureCol := by
  intro c hc hs
  have h := List.all_eq_true.mp C16_table_check c hc
  have hl := listed_false_of_inScope c hs
  simp only [cellOk, hl, Bool.or_false, beq_iff_eq] at h
  exact h

/-- C16 on everything in scope: for every generated cell outside the listed ones, EVERY name and EVERY
    surrounding expression, the string form and the `col(name)` form both give PySpark's expression. -/
theorem C16_partial : ∀ c ∈ cells, InScope c → ∀ (parse : String → Ex) (k : Ex → Ex) (n : String),
    resultWith parse k c.coercion (.str n) = specResult k n ∧
    resultWith parse k c.coercion (.colObj (.column n)) = specResult k n := by
  intro c hc hs parse k n
  have h := C16_lift parse c.coercion (C16_table_partial c hc hs) k n
  exact ⟨h.2, h.1 ▸ h.2⟩

/-- a cell's result through the table -/
def C16.cellResult (parse : String → Ex) (k : Ex → Ex) (fn : String) (e : Engine) (pos sub : Nat) (a : Arg) : Option Ex :=
  (coercionAt fn e pos sub).bind (fun c => resultWith parse k c a)

/-- counterexample for `H_rawOperator` (replayed by the check: `log1p('c')` on DuckDB gives `LN('c' + 1)`) -/
theorem C16_cex_rawOperator (parse : String → Ex) : coercionAt "log1p" .duckdb 0 0 = some .literal →
    cellResult parse id "log1p" .duckdb 0 0 (.str "c") ≠ specResult id "c" := by
  intro h; simp [cellResult, h, resultWith, coerce, litFn, routeStr, litOnStr, specResult]

/-- counterexample for `H_litOnName` (`slice('x', 's', 'l')` on DuckDB slices by the literals 's', 'l') -/
theorem C16_cex_litOnName (parse : String → Ex) : coercionAt "slice" .duckdb 1 0 = some .literal →
    cellResult parse id "slice" .duckdb 1 0 (.str "c") ≠ specResult id "c" := by
  intro h; simp [cellResult, h, resultWith, coerce, litFn, routeStr, litOnStr, specResult]

/-- counterexample for `H_formatAsText` (`to_unix_timestamp('t', 'a-b')` vs `…, col('a-b'))`: two different
    string literals, and neither is the column) -/
theorem C16_cex_formatAsText (parse : String → Ex) : coercionAt "to_unix_timestamp" .standalone 1 0 = some .text →
    cellResult parse id "to_unix_timestamp" .standalone 1 0 (.str "a-b") ≠
      cellResult parse id "to_unix_timestamp" .standalone 1 0 (.colObj (.column "a-b")) ∧
    cellResult parse id "to_unix_timestamp" .standalone 1 0 (.str "a-b") ≠ specResult id "a-b" := by
  intro h
  have hq : identText "a-b" ≠ "a-b" := by decide
  simp [cellResult, h, resultWith, coerce, specResult, Ex.text, Ne.symm hq]

/-- counterexample for `H_parsedName` (`trunc('a-b', 'month')` truncates the difference `a - b`) -/
theorem C16_cex_parsedName (parse : String → Ex) (hp : parse "a-b" ≠ .column "a-b") :
    coercionAt "trunc" .standalone 0 0 = some .parsed →
    cellResult parse id "trunc" .standalone 0 0 (.str "a-b") ≠ specResult id "a-b" := by
  intro h; simp [cellResult, h, resultWith, coerce, columnCtor, routeStr, columnCtorOnStr, specResult, hp]

-- non-vacuity ---------------------------------------------------------------------------------------

/-- in-scope cells exist in every engine (the check measures how many: see evidence `in_scope_cells`) -/
example : Engine.all.all (fun e => cells.any (fun c => c.engine == e && !listed c && c.coercion == .ensureCol)) = true := by
  decide +kernel
/-- a concrete in-scope cell (`sqrt`, standalone, first argument) meets the hypotheses of `C16_partial` -/
example : InScope ⟨"sqrt", .standalone, 0, 0, .ensureCol⟩ := by decide
example : (⟨"sqrt", .standalone, 0, 0, .ensureCol⟩ : Cell) ∈ cells := by decide +kernel
/-- `C16_lift` at a concrete name with a non-trivial context -/
example : resultWith parseStandIn (fun e => .app "SQRT" [e]) .ensureCol (.str "a-b") = some (.app "SQRT" [.column "a-b"]) :=
  (C16_lift parseStandIn .ensureCol rfl _ _).2
/-- injective contexts exist (`C16_literal_differs`, `C16_parsed_iff`) -/
example : ∀ a b : Ex, (fun e => Ex.app "F" [e]) a = (fun e => Ex.app "F" [e]) b → a = b := by
  intro a b h; simpa using h
/-- the stand-in parser separates the two kinds of name used by `C16_parsed_iff` / `C16_cex_parsedName` -/
example : parseStandIn "c" = .column "c" ∧ parseStandIn "a-b" ≠ .column "a-b" := by
  have h1 : identLike "c" = true := by decide
  have h2 : identLike "a-b" = false := by decide
  simp [parseStandIn, h1, h2]

/-- C16 at full strength: for every cell, every name, every context, both forms give PySpark's expression. -/
def C16_full_statement : Prop :=
  ∀ c ∈ cells, ∀ (parse : String → Ex) (k : Ex → Ex) (n : String),
    resultWith parse k c.coercion (.str n) = specResult k n ∧
    resultWith parse k c.coercion (.colObj (.column n)) = specResult k n

/-- the full statement follows as soon as no listed cell is left in the table -/
theorem C16_full_of_no_listed (h : ∀ c ∈ cells, listed c = false) : C16_full_statement := by
  intro c hc parse k n
  have hl := h c hc
  have hs : InScope c := by
    simp only [listed, Bool.or_eq_false_iff] at hl
    exact ⟨hl.1.1.1, hl.1.1.2, hl.1.2, hl.2⟩
  exact C16_partial c hc hs parse k n

end Sqlframe
