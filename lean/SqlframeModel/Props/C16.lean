/-
Props/C16.lean — property theorems for C16 (functions accept a column name wherever PySpark does).

The quantifier of C16 is  (function × engine × ColumnOrName position)  ×  every name string.
* the finite part is `Gen.cells` (regenerated on every run by running the real functions with a tracing
  `str`) and is decided by `decide +kernel` (`C16_table_check`);
* the unbounded part (every name, every surrounding expression) is `C16_lift`.
Full statement: `C16_full_statement`.  Proved: `C16_partial` under the named scope hypotheses
`H_rawOperator`, `H_litOnName`, `H_formatAsText`, `H_parsedName`, `H_listForm` (Impl/C16.lean), each with a
counterexample theorem whose witness the check replays on the real code.
Names and collections (second half of the file): `C16_struct_names` (field names of `struct` for every list of names),
`C16_unpack_listForm` / `C16_cols_listForm` (ONE list argument means its elements), `C16_autoAlias` (the automatic alias
cannot tell the two forms apart), `C16_named_partial` (C16_partial with the alias on).
-/
import SqlframeModel.Impl.C16
namespace Sqlframe
open Gen C16

/-- `Column.ensure_col("n")` is the reference to column `n` (depends on the generated `colOnStr`). -/
theorem C16_ensureCol_str (parse : String → Ex) (n : String) : ensureCol parse (.str n) = .column n := by
  simp [ensureCol, colFn, routeStr, colOnStr]

/-- `Column.ensure_col(c)` gives a Column back unchanged (depends on `colOnOther`, `columnCtorUnwrapsColumn`). -/
theorem C16_ensureCol_col (parse : String → Ex) (e : Ex) : ensureCol parse (.colObj e) = e := by
  simp [ensureCol, colFn, colOnOther, columnCtor]

/-- The unbounded part: where the string meets `ensure_col`, the name and `col(name)` give the same
    expression — PySpark's — for EVERY name `n`, under EVERY surrounding expression `k`, whatever the parser does. -/
theorem C16_lift (parse : String → Ex) (c : Coercion) (hc : c = .ensureCol) (k : Ex → Ex) (n : String) :
    resultWith parse k c (.str n) = resultWith parse k c (.colObj (.column n)) ∧
    resultWith parse k c (.str n) = specResult k n := by
  subst hc
  simp [resultWith, coerce, specResult, C16_ensureCol_str, C16_ensureCol_col]

/-- Where the string meets `lit` / `_lit` / an operator, the two forms differ for every name (the context
    `k` only has to keep different arguments apart). -/
theorem C16_literal_differs (parse : String → Ex) (k : Ex → Ex) (hk : ∀ a b, k a = k b → a = b) (n : String) :
    resultWith parse k .literal (.str n) ≠ resultWith parse k .literal (.colObj (.column n)) := by
  simp only [resultWith, coerce, litFn, routeStr, litOnStr, Option.map_some, ne_eq, Option.some.injEq]
  intro h
  exact Ex.noConfusion (hk _ _ h)

/-- Where the parameter is consumed as Python text (a format), BOTH forms become a string literal, never
    PySpark's reference to the column; they are the same literal exactly for identifier-like names. -/
theorem C16_text_literal (parse : String → Ex) (k : Ex → Ex) (hk : ∀ a b, k a = k b → a = b) (n : String) :
    resultWith parse k .text (.str n) ≠ specResult k n ∧
    resultWith parse k .text (.colObj (.column n)) ≠ specResult k n ∧
    (resultWith parse k .text (.str n) = resultWith parse k .text (.colObj (.column n)) ↔ identText n = n) := by
  refine ⟨?_, ?_, ?_⟩
  · simp only [resultWith, coerce, specResult, Option.map_some, ne_eq, Option.some.injEq]
    intro h; exact Ex.noConfusion (hk _ _ h)
  · simp only [resultWith, coerce, specResult, Option.map_some, ne_eq, Option.some.injEq]
    intro h; exact Ex.noConfusion (hk _ _ h)
  · simp only [resultWith, coerce, Ex.text, Option.map_some, Option.some.injEq]
    constructor
    · intro h; have := hk _ _ h; simpa using this.symm
    · intro h; rw [h]

/-- Where the string form raises, it yields no expression while the Column form yields PySpark's. -/
theorem C16_none_fails (parse : String → Ex) (k : Ex → Ex) (n : String) :
    resultWith parse k .none (.str n) = none ∧ resultWith parse k .none (.colObj (.column n)) = specResult k n := by
  simp [resultWith, coerce, specResult]

/-- Where the string meets `Column(name)`, the two forms agree exactly on the names whose text sqlglot
    parses to a plain reference to that column (`c` does, `a-b` and `a b` do not). -/
theorem C16_parsed_iff (parse : String → Ex) (k : Ex → Ex) (hk : ∀ a b, k a = k b → a = b) (n : String) :
    resultWith parse k .parsed (.str n) = resultWith parse k .parsed (.colObj (.column n)) ↔ parse n = .column n := by
  simp only [resultWith, coerce, columnCtor, routeStr, columnCtorOnStr, Option.map_some, Option.some.injEq]
  constructor
  · intro h; exact hk _ _ h
  · intro h; rw [h]

/-- Root cause of `H_rawOperator`: Python evaluates `"n" + lit(1)` as `lit(1).__radd__("n")`, and
    `inverse_binary_op` makes a string literal of a `str` operand (generated `inverseBinaryOpOnStr`). -/
theorem C16_rawOperator_root (parse : String → Ex) (n : String) :
    log1pFromLog parse (.str n) = .app "LN" [.app "+" [.strLit n, .app "lit" [.strLit "1"]]] ∧
    log1pFromLog parse (.str n) ≠ log1pFromLog parse (.colObj (.column n)) ∧
    dateSubDays parse (.str n) ≠ dateSubDays parse (.colObj (.column n)) := by
  refine ⟨by simp [log1pFromLog, pyAdd, operand, routeStr, inverseBinaryOpOnStr], ?_, ?_⟩
  · simp [log1pFromLog, pyAdd, operand, routeStr, inverseBinaryOpOnStr]
  · simp [dateSubDays, pyMul, operand, routeStr, inverseBinaryOpOnStr]

/-- The finite part, decided by the kernel over the regenerated table: every cell either meets `ensure_col`
    or is one of the listed cells. -/
theorem C16_table_check : cells.all cellOk = true := by decide +kernel

private theorem listed_false_of_inScope (c : Cell) (h : InScope c) : listed c = false := by
  obtain ⟨h1, h2, h3, h4, h5⟩ := h
  unfold H_rawOperator at h1; unfold H_litOnName at h2; unfold H_formatAsText at h3; unfold H_parsedName at h4
  unfold H_listForm at h5
  simp [listed, h1, h2, h3, h4, h5]

/-- `C16_table_partial`: every in-scope row of the generated table meets `ensure_col`. -/
theorem C16_table_partial : ∀ c ∈ cells, InScope c → c.coercion = .ensureCol := by
  intro c hc hs
  have h := List.all_eq_true.mp C16_table_check c hc
  have hl := listed_false_of_inScope c hs
  simp only [cellOk, hl, Bool.or_false, beq_iff_eq] at h
  exact h

/-- C16 on everything in scope: for every generated cell outside the listed ones, EVERY name and EVERY
    surrounding expression, the string form and the `col(name)` form both give PySpark's expression. -/
theorem C16_partial : ∀ c ∈ cells, InScope c → ∀ (parse : String → Ex) (k : Ex → Ex) (n : String),
    resultWith parse k c.coercion (.str n) = specResult k n ∧
    resultWith parse k c.coercion (.colObj (.column n)) = specResult k n := by
  intro c hc hs parse k n
  have h := C16_lift parse c.coercion (C16_table_partial c hc hs) k n
  exact ⟨h.2, h.1 ▸ h.2⟩

/-- a cell's result through the table -/
def C16.cellResult (parse : String → Ex) (k : Ex → Ex) (fn : String) (e : Engine) (pos sub : Nat) (a : Arg) : Option Ex :=
  (coercionAt fn e pos sub).bind (fun c => resultWith parse k c a)

/-- counterexample for `H_rawOperator` (replayed by the check: `log1p('c')` on DuckDB gives `LN('c' + 1)`) -/
theorem C16_cex_rawOperator (parse : String → Ex) : coercionAt "log1p" .duckdb 0 0 = some .literal →
    cellResult parse id "log1p" .duckdb 0 0 (.str "c") ≠ specResult id "c" := by
  intro h; simp [cellResult, h, resultWith, coerce, litFn, routeStr, litOnStr, specResult]

/-- counterexample for `H_litOnName` (`slice('x', 's', 'l')` on DuckDB slices by the literals 's', 'l') -/
theorem C16_cex_litOnName (parse : String → Ex) : coercionAt "slice" .duckdb 1 0 = some .literal →
    cellResult parse id "slice" .duckdb 1 0 (.str "c") ≠ specResult id "c" := by
  intro h; simp [cellResult, h, resultWith, coerce, litFn, routeStr, litOnStr, specResult]

/-- counterexample for `H_formatAsText` (`to_unix_timestamp('t', 'a-b')` vs `…, col('a-b'))`: two different
    string literals, and neither is the column) -/
theorem C16_cex_formatAsText (parse : String → Ex) : coercionAt "to_unix_timestamp" .standalone 1 0 = some .text →
    cellResult parse id "to_unix_timestamp" .standalone 1 0 (.str "a-b") ≠
      cellResult parse id "to_unix_timestamp" .standalone 1 0 (.colObj (.column "a-b")) ∧
    cellResult parse id "to_unix_timestamp" .standalone 1 0 (.str "a-b") ≠ specResult id "a-b" := by
  intro h
  have hq : identText "a-b" ≠ "a-b" := by decide
  simp [cellResult, h, resultWith, coerce, specResult, Ex.text, Ne.symm hq]

/-- counterexample for `H_parsedName` (`trunc('a-b', 'month')` truncates the difference `a - b`) -/
theorem C16_cex_parsedName (parse : String → Ex) (hp : parse "a-b" ≠ .column "a-b") :
    coercionAt "trunc" .standalone 0 0 = some .parsed →
    cellResult parse id "trunc" .standalone 0 0 (.str "a-b") ≠ specResult id "a-b" := by
  intro h; simp [cellResult, h, resultWith, coerce, columnCtor, routeStr, columnCtorOnStr, specResult, hp]

-- non-vacuity ---------------------------------------------------------------------------------------

/-- in-scope cells exist in every engine (the check measures how many: see evidence `in_scope_cells`) -/
example : Engine.all.all (fun e => cells.any (fun c => c.engine == e && !listed c && c.coercion == .ensureCol)) = true := by
  decide +kernel
/-- a concrete in-scope cell (`sqrt`, standalone, first argument) meets the hypotheses of `C16_partial` -/
example : InScope ⟨"sqrt", .standalone, 0, 0, .ensureCol⟩ := by decide
example : (⟨"sqrt", .standalone, 0, 0, .ensureCol⟩ : Cell) ∈ cells := by decide +kernel
/-- `C16_lift` at a concrete name with a non-trivial context -/
example : resultWith parseStandIn (fun e => .app "SQRT" [e]) .ensureCol (.str "a-b") = some (.app "SQRT" [.column "a-b"]) :=
  (C16_lift parseStandIn .ensureCol rfl _ _).2
/-- injective contexts exist (`C16_literal_differs`, `C16_parsed_iff`) -/
example : ∀ a b : Ex, (fun e => Ex.app "F" [e]) a = (fun e => Ex.app "F" [e]) b → a = b := by
  intro a b h; simpa using h
/-- the stand-in parser separates the two kinds of name used by `C16_parsed_iff` / `C16_cex_parsedName` -/
example : parseStandIn "c" = .column "c" ∧ parseStandIn "a-b" ≠ .column "a-b" := by
  have h1 : identLike "c" = true := by decide
  have h2 : identLike "a-b" = false := by decide
  simp [parseStandIn, h1, h2]

-- ------------------------------------------------------------------------------------------------
-- names and collections
-- ------------------------------------------------------------------------------------------------

/-- `struct`: for EVERY list of names and whatever sqlglot reads into a name, the fields built from the names and the
    fields built from `col(name)` are the same, and they are PySpark's: each field is the referenced column, named by
    the LAST part of the reference (`aliasOf`), never by the caller's raw text.  Rests on the generated
    `Gen.structFieldName = resolved` and on `colOnStr` / `colOnOther`. -/
theorem C16_struct_names (N : Names) (ns : List String) :
    structOf N structFieldName (strArgs ns) = specStruct N ns ∧
    structOf N structFieldName (colArgs ns) = specStruct N ns := by
  constructor
  · simp only [structOf, specStruct, strArgs, List.map_map]
    congr 1
  · simp only [structOf, specStruct, colArgs, List.map_map]
    congr 1

/-- The class of change `Gen.structFieldName` guards against: were the field named by the caller's raw text, the two
    forms would differ for every name whose text is not already the identifier of its last part (`s.x`, `t.a`, …). -/
theorem C16_struct_raw_differs (N : Names) (n : String) (h : N.identOf n ≠ N.identOf (N.aliasOf (.column n))) :
    structOf N .raw [.str n] ≠ structOf N .raw [.colObj (.column n)] := by
  simp [structOf, structField, fieldNameText, h]

/-- Every place in functions.py / function_alternatives.py that makes an identifier, an alias or a keyword out of text
    derived from a column argument (regenerated `Gen.nameSites`: struct, extract on BigQuery, the array_min / array_max
    subqueries, …) takes the text from the RESOLVED column; hence, at every such site, for every name and whatever
    sqlglot reads into names, the name and `col(name)` give the same text: the last part of the reference. -/
theorem C16_nameSites_forms : ∀ s ∈ nameSites, ∀ (N : Names) (n : String),
    fieldNameText N s.2 (.str n) = N.aliasOf (.column n) ∧
    fieldNameText N s.2 (.colObj (.column n)) = N.aliasOf (.column n) := by
  have hall : nameSites.all (fun s => s.2 == .resolved) = true := by decide
  intro s hs N n
  have h := List.all_eq_true.mp hall s hs
  have h2 : s.2 = .resolved := by simpa using h
  rw [h2]
  simp [fieldNameText, colFn, routeStr, colOnStr, colOnOther, columnCtor]

/-- ONE list argument means its elements: for every site whose flattener splices and every non-empty list of arguments,
    `f([a, b, …])` unpacks to exactly what `f(a, b, …)` unpacks to, namely the elements. -/
theorem C16_unpack_listForm (s : UnpackSite) (hs : s.flattener.splices = true) (a : Arg) (as : List Arg) :
    s.unpack (.oneList (a :: as)) = some (a :: as) ∧ s.unpack (.varargs (a :: as)) = some (a :: as) := by
  unfold UnpackSite.unpack
  cases hf : s.flattener <;> simp [hf, Flattener.splices] at hs <;> cases a <;> simp [unpack]

/-- A site whose flattener does not splice: the varargs form still works when the scalar guard names the kind of the
    first argument, the list form raises (root cause of `H_listForm`). -/
theorem C16_unpack_broken (s : UnpackSite) (hs : s.flattener.splices = false) (as : List Arg) :
    s.unpack (.oneList as) = none ∧
    (s.guardStr = true → ∀ n rest, s.unpack (.varargs (.str n :: rest)) = some (.str n :: rest)) := by
  unfold UnpackSite.unpack
  cases hf : s.flattener <;> simp [hf, Flattener.splices] at hs <;> simp [unpack]
  all_goals intro hg n rest; simp [hg]

/-- `*cols` functions: over a splicing site, the names in ONE list, the names as varargs, and `col(name)` objects in
    either form all give PySpark's expression — for every non-empty list of names and every body `k`. -/
theorem C16_cols_listForm (parse : String → Ex) (s : UnpackSite) (hs : s.flattener.splices = true) (k : List Ex → Ex)
    (n : String) (ns : List String) :
    let spec := some (k ((n :: ns).map .column))
    colsCall parse s k (.oneList (strArgs (n :: ns))) = spec ∧
    colsCall parse s k (.varargs (strArgs (n :: ns))) = spec ∧
    colsCall parse s k (.oneList (colArgs (n :: ns))) = spec ∧
    colsCall parse s k (.varargs (colArgs (n :: ns))) = spec := by
  have hstr : (strArgs (n :: ns)).map (ensureCol parse) = (n :: ns).map .column := by
    simp [strArgs, List.map_map, Function.comp_def, C16_ensureCol_str]
  have hcol : (colArgs (n :: ns)).map (ensureCol parse) = (n :: ns).map .column := by
    simp [colArgs, List.map_map, Function.comp_def, C16_ensureCol_col]
  have h1 := C16_unpack_listForm s hs (.str n) (strArgs ns)
  have h2 := C16_unpack_listForm s hs (.colObj (.column n)) (colArgs ns)
  simp only [strArgs, colArgs, List.map_cons] at h1 h2 hstr hcol ⊢
  simp only [colsCall, h1.1, h1.2, h2.1, h2.2, Option.map_some, List.map_cons, hstr, hcol, and_self]

/-- `struct` as a whole (its generated site and name source): names or `col(name)`, as varargs or as ONE list. -/
theorem C16_struct_call (N : Names) (s : UnpackSite) (hs : s.flattener.splices = true) (n : String) (ns : List String) :
    structCall N s structFieldName (.oneList (strArgs (n :: ns))) = some (specStruct N (n :: ns)) ∧
    structCall N s structFieldName (.varargs (strArgs (n :: ns))) = some (specStruct N (n :: ns)) ∧
    structCall N s structFieldName (.oneList (colArgs (n :: ns))) = some (specStruct N (n :: ns)) ∧
    structCall N s structFieldName (.varargs (colArgs (n :: ns))) = some (specStruct N (n :: ns)) := by
  have h1 := C16_unpack_listForm s hs (.str n) (strArgs ns)
  have h2 := C16_unpack_listForm s hs (.colObj (.column n)) (colArgs ns)
  have e1 := (C16_struct_names N (n :: ns)).1
  have e2 := (C16_struct_names N (n :: ns)).2
  simp only [strArgs, colArgs, List.map_cons] at h1 h2 e1 e2 ⊢
  simp only [structCall, h1.1, h1.2, h2.1, h2.2, Option.map_some, e1, e2, and_self]

/-- The generated sites against the generated table, decided by the kernel: the scalar guard of every site names both
    `str` and Column, and every list-form cell (element 2 / 3) that does not meet `ensure_col` belongs to a function
    whose site, for that engine, does not splice (so `H_listForm` excludes nothing else). -/
theorem C16_sites_check :
    unpackSites.all (fun s => s.guardStr && s.guardColumn) = true ∧
    cells.all (fun c => decide (c.sub < 2) || c.coercion == .ensureCol || listFormBroken c) = true := by
  constructor
  · decide
  · decide +kernel

/-- The automatic alias cannot tell the two forms apart: the wrapper reads nothing but the function's result
    (generated `Gen.autoAliasFromResultOnly`), so wherever the undecorated results agree the decorated ones do. -/
theorem C16_autoAlias (N : Names) (fn : String) (raw₁ raw₂ : Option String) (e : Ex) :
    autoAlias N autoAliasFromResultOnly fn raw₁ e = autoAlias N autoAliasFromResultOnly fn raw₂ e := by
  simp [autoAlias, autoAliasFromResultOnly]

/-- The class of change `Gen.autoAliasFromResultOnly` guards against: a wrapper that reads the caller's raw argument
    names the result differently for a name and for `col(name)` as soon as the raw text is not the result's own first
    identifier. -/
theorem C16_autoAlias_raw_differs (N : Names) (fn : String) (hfn : fn ∉ noAutoAlias) (n : String) (e : Ex)
    (h : n ≠ N.firstIdent e) :
    autoAlias N false fn (rawFirstOf (.str n)) e ≠ autoAlias N false fn (rawFirstOf (.colObj (.column n))) e := by
  simp [autoAlias, hfn, rawFirstOf, h]

/-- `C16_partial` with the wrapper on: for every in-scope cell, every name, every body and whatever sqlglot reads into
    names, the decorated result — expression AND the name it carries — is PySpark's for both forms. -/
theorem C16_named_partial : ∀ c ∈ cells, InScope c → ∀ (N : Names) (fn : String) (k : Ex → Ex) (n : String),
    decorated N fn k c.coercion (.str n) = specDecorated N fn k n ∧
    decorated N fn k c.coercion (.colObj (.column n)) = specDecorated N fn k n := by
  intro c hc hs N fn k n
  have h := C16_partial c hc hs N.parse k n
  simp only [decorated, specDecorated, h.1, h.2, specResult, Option.map_some, Option.some.injEq]
  exact ⟨C16_autoAlias N fn _ _ _, C16_autoAlias N fn _ _ _⟩

/-- counterexample for `H_listForm`: at a site whose flattener does not splice, the list form raises while the varargs
    form works (`map_concat(['c', 'd'])` did, before 7a969fc) -/
theorem C16_cex_listForm (parse : String → Ex) (s : UnpackSite) (hsplice : s.flattener.splices = false)
    (hguard : s.guardStr = true) (k : List Ex → Ex) :
    colsCall parse s k (.oneList (strArgs ["c", "d"])) = none ∧
    colsCall parse s k (.varargs (strArgs ["c", "d"])) = some (k [.column "c", .column "d"]) := by
  -- conditional on the site's regenerated flags (a site whose flattener does not splice), so that repairing the
  -- source (7a969fc repaired `map_concat`) does not break the theorem
  have h : s.flattener.splices = false ∧ s.guardStr = true := ⟨hsplice, hguard⟩
  have hb := C16_unpack_broken s h.1 (strArgs ["c", "d"])
  have hv := hb.2 h.2 "c" [.str "d"]
  simp only [strArgs, List.map_cons, List.map_nil] at hb hv ⊢
  simp only [colsCall, hb.1, hv, Option.map_none, Option.map_some, List.map_cons, List.map_nil, C16_ensureCol_str, and_self]

-- non-vacuity (names and collections) ---------------------------------------------------------------

/-- splicing sites exist and are reachable on every engine (`array`), so `C16_cols_listForm` / `C16_struct_call` apply -/
example : Engine.all.all (fun e => unpackSites.any (fun s => s.api == "array" && s.engines.contains e && s.flattener.splices)) = true := by
  decide
example : unpackSites.any (fun s => s.api == "struct" && s.flattener.splices) = true := by decide
/-- list-form cells that are in scope exist in the generated table -/
example : cells.any (fun c => decide (c.sub ≥ 2) && !listed c && c.coercion == .ensureCol) = true := by decide +kernel
/-- `C16_struct_raw_differs` has instances: with the symbolic names the qualified name `s.x` is one -/
example : symNames.identOf "s.x" ≠ symNames.identOf (symNames.aliasOf (.column "s.x")) := by decide
/-- `C16_struct_names` at a concrete list, written out -/
example : structOf symNames structFieldName (strArgs ["s.x", "c"]) =
    .app "STRUCT" [
      .app "PropertyEQ" [.app "Identifier" [.strLit "identOf(aliasOf(col[s.x]))"], .column "s.x"],
      .app "PropertyEQ" [.app "Identifier" [.strLit "identOf(aliasOf(col[c]))"], .column "c"]] :=
  (C16_struct_names symNames ["s.x", "c"]).1
/-- naming sites exist (`C16_nameSites_forms` is not about an empty list) -/
example : nameSites.any (fun s => s.1 == "struct") = true ∧ nameSites.any (fun s => s.1 == "extract") = true := by decide
/-- a function outside `noAutoAlias` exists for `C16_autoAlias_raw_differs` -/
example : "upper" ∉ noAutoAlias := by decide

/-- C16 at full strength: for every cell, every name, every context, both forms give PySpark's expression. -/
def C16_full_statement : Prop :=
  ∀ c ∈ cells, ∀ (parse : String → Ex) (k : Ex → Ex) (n : String),
    resultWith parse k c.coercion (.str n) = specResult k n ∧
    resultWith parse k c.coercion (.colObj (.column n)) = specResult k n

/-- the full statement follows as soon as no listed cell is left in the table -/
theorem C16_full_of_no_listed (h : ∀ c ∈ cells, listed c = false) : C16_full_statement := by
  intro c hc parse k n
  have hl := h c hc
  have hs : InScope c := by
    simp only [listed, Bool.or_eq_false_iff] at hl
    exact ⟨hl.1.1.1.1, hl.1.1.1.2, hl.1.1.2, hl.1.2, hl.2⟩
  exact C16_partial c hc hs parse k n

end Sqlframe
