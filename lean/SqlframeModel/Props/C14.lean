/-
Props/C14.lean — property theorems for C14 (writes to tables: save modes, insertInto positional /
byName, catalog, failed writes; path writers: mode handling).

Model: Impl/C14Writer.lean (sqlframe's statement choice around the regenerated Gen.Writer, on top of
an ASSUMED single-statement engine), scope: Impl/C14Scope.lean.  What is and is not decided is stated
at the bottom (`C14_full_statement`).
-/
import SqlframeModel.Lemmas.C14Steps
import SqlframeModel.Lemmas.C14Options
namespace Sqlframe
open Gen C14

/-- Every entry of the regenerated `saveAsTable` decision table that no hypothesis excuses is the
    action PySpark's mode calls for: all six modes on an existing target, all but `append` on a
    missing one (22 generated entries, evaluated by the kernel). -/
theorem C14_table_sound : tableOk Gen.saveAction = true := by decide

/-- `insertInto` has the byName re-ordering branch and executes its statement. -/
theorem C14_flags_sound : genFlags.reorders = true ∧ genFlags.executes = true := by decide

/-- **Builder chains.** For every chain of `.byName` / `.mode(m)` calls, in any order (induction
    over the chain): the writer asks for a by-name insert iff `.byName` occurs somewhere, and carries
    the mode of the last `.mode` call. -/
theorem C14_chain (calls : List Call) : writerState calls = specChain calls := by
  have hk : Gen.modeKeepsByName = true ∧ Gen.byNameKeepsMode = true := by decide
  have gen : ∀ (cs : List Call) (w : WState),
      cs.foldl (fun w c => applyCallP true true c w) w =
        { byName := w.byName || cs.any (fun c => c = .byName),
          mode := cs.foldl lastModeStep w.mode } := by
    intro cs
    induction cs with
    | nil => intro w; simp
    | cons c rest ih =>
      intro w
      simp only [List.foldl_cons, List.any_cons]
      rw [ih]
      cases c <;> simp [applyCallP, lastModeStep]
  simp only [writerState, writerStateP, hk.1, hk.2, specChain]
  rw [gen]
  simp

/-- **Save modes.** For every mode of {None, error, errorifexists, ignore, overwrite, append} —
    given through `saveAsTable(mode=…)` or `.mode(…)` — every catalog state, target name and frame
    (including a frame whose SELECT fails), under the named hypotheses, the statement sqlframe issues
    has exactly PySpark's effect and outcome. -/
theorem C14_modes_partial (m : Mode) (n : Name) (arg ms : Option String) (f : Frame) (st : St)
    (hm : specMode arg ms = some m) (hwf : CatWF st.cat) (ho : (Op.save n arg ms f).WF)
    (hs : InScope Gen.saveAction genFlags (.save n arg ms f) st) :
    (step (.save n arg ms f) st).1.cat = (specSave m n f st.cat).1 ∧
    (step (.save n arg ms f) st).2 = ⟨(specSave m n f st.cat).2, none⟩ := by
  have h := step_generic Gen.saveAction genFlags C14_table_sound C14_flags_sound.1 C14_flags_sound.2
    (.save n arg ms f) st hwf ho hs
  simpa [specStep, hm, step] using h

/-- One call of any kind (saveAsTable, insertInto positional / byName, session.table, DROP). -/
theorem C14_step_partial (o : Op) (st : St) (hwf : CatWF st.cat) (ho : o.WF)
    (hs : InScope Gen.saveAction genFlags o st) :
    (step o st).1.cat = (specStep o st.cat).1 ∧ (step o st).2 = (specStep o st.cat).2 :=
  step_generic Gen.saveAction genFlags C14_table_sound C14_flags_sound.1 C14_flags_sound.2 o st hwf ho hs

/-- **Histories.** After any sequence of calls (induction over the sequence), each in scope in the
    state the model reaches, the engine catalog is the fold of the specification. -/
theorem C14_history (ops : List Op) : ∀ (st : St), CatWF st.cat → InScopeRun Gen.saveAction genFlags ops st →
    (run ops st).cat = specRun ops st.cat := by
  induction ops with
  | nil => intro st _ _; rfl
  | cons o os ih =>
    intro st hwf hs
    obtain ⟨ho, hin, hrest⟩ := hs
    obtain ⟨hc, _⟩ := C14_step_partial o st hwf ho hin
    have hwf' : CatWF (step o st).1.cat := by rw [hc]; exact specStep_WF o st.cat hwf ho
    have := ih (step o st).1 hwf' hrest
    simp only [run, specRun, List.foldl_cons] at this ⊢
    rw [this, hc]

/-- The catalog API reflects exactly the tables the specification says exist. -/
theorem C14_catalog_reflects (ops : List Op) (st : St) (hwf : CatWF st.cat)
    (hs : InScopeRun Gen.saveAction genFlags ops st) (n : Name) :
    tableExists (run ops st) n = ((specRun ops st.cat).get n).isSome ∧
    (n ∈ listTables (run ops st) ↔ ((specRun ops st.cat).get n).isSome = true) ∧
    listColumns (run ops st) n = listColumns { cat := specRun ops st.cat } n := by
  have h := C14_history ops st hwf hs
  refine ⟨by simp [tableExists, h], ?_, by simp only [listColumns, h]⟩
  simp only [listTables, h]
  exact mem_names_iff _ n

/-- **byName.** For every frame whose columns are a permutation of the target's, the frame the model
    places under `INSERT INTO` has the target's column order, and every row `r` is replaced by a row
    whose value *under the target's name c* is `r`'s value *under the frame's name c*. -/
theorem C14_byName (n : Name) (f : Frame) (st : St) (T : TTable) (hg : st.cat.get n = some T)
    (hwf : CatWF st.cat) (hperm : f.cols.Perm T.cols)
    (hknown : H_byNameSchemaKnown Gen.saveAction genFlags (.insertInto n true f) st)
    (hfresh : H_schemaCacheFresh Gen.saveAction genFlags (.insertInto n true f) st) :
    ∃ g φ, (selFrameP genFlags n true f st).2 = some g ∧ g.cols = T.cols ∧ g.rows = f.rows.map φ ∧
      ∀ r, ∀ c ∈ T.cols, alookup Val.null T.cols (φ r) c = alookup Val.null f.cols r c := by
  obtain ⟨_, hne⟩ := catWF_get st.cat n T hwf hg
  have hsel := selFrameP_byName genFlags C14_flags_sound.1 n f st T hg hne
    (by simpa [H_byNameSchemaKnown, byNameTarget, hg] using hknown)
    (by simpa [H_schemaCacheFresh, byNameTarget, hg] using hfresh)
  have hall : T.cols.all (fun c => c ∈ f.cols) = true := by
    simp only [List.all_eq_true, decide_eq_true_eq]
    intro c hc
    exact hperm.symm.subset hc
  refine ⟨f.project T.cols, fun r => T.cols.map (alookup Val.null f.cols r), ?_, rfl, rfl, ?_⟩
  · rw [hsel]; simp [alignByName, hall]
  · intro r c hc
    exact alookup_map Val.null _ T.cols c hc

/-- by-name insertion does not depend on the order of the frame's columns: re-ordering the frame
    (any column list `cs` containing the target's columns) leaves the aligned frame unchanged -/
theorem C14_byName_order_irrelevant (T : TTable) (f : Frame) (cs : List Name)
    (hcs : ∀ c ∈ T.cols, c ∈ cs) :
    (f.project cs).project T.cols = f.project T.cols := by
  simp only [Frame.project, Frame.mk.injEq, List.map_map, true_and, and_true]
  constructor
  · apply List.map_congr_left
    intro c hc
    exact alookup_map Ty.int _ cs c (hcs c hc)
  · apply List.map_congr_left
    intro r _
    apply List.map_congr_left
    intro c hc
    exact alookup_map Val.null _ cs c (hcs c hc)

theorem exec_fail (s : Stmt) (c : Cat) (h : (exec s c).2 = false) : (exec s c).1 = c := by
  cases s with
  | createAs n i r f =>
    cases hg : c.get n <;> cases i <;> cases r <;> cases hf : f.fails <;> simp_all [exec]
  | insertSel n ow f =>
    cases hg : c.get n with
    | none => cases ow <;> simp [exec, hg]
    | some T =>
      cases ow with
      | true => simp [exec]
      | false =>
        cases hi : insertRows T f with
        | none => simp [exec, hg, hi]
        | some T' => simp [exec, hg, hi] at h
  | dropTable n =>
    cases hg : c.get n <;> simp_all [exec]

/-- **Failed writes (in the model).** Whatever the decision table and flags, a call that reports
    failure leaves the engine catalog exactly as it was: sqlframe issues one statement per write and
    the (assumed) engine applies a failing statement not at all. -/
theorem C14_failed_write_keeps_state (sa : String → Bool → SaveAction) (fl : Flags) (o : Op) (st : St)
    (h : (stepP sa fl o st).2.ok = false) : (stepP sa fl o st).1.cat = st.cat := by
  have hins : ∀ n bn f, (insertStepP fl n bn f st).2.ok = false → (insertStepP fl n bn f st).1.cat = st.cat := by
    intro n bn f h
    have hc := selFrameP_cat fl n bn f st
    cases hp : (selFrameP fl n bn f st).2 with
    | none => simp [insertStepP, hp, hc]
    | some g =>
      by_cases hex : fl.executes = true
      · simp only [insertStepP, hp, hex, if_true] at h ⊢
        rw [hc] at h ⊢
        exact exec_fail _ _ h
      · simp [insertStepP, hp, hex] at h
  cases o with
  | read n =>
    simp only [stepP, readStepP]
    split <;> (try split) <;> exact addTableP_cat _ _ _
  | drop n => simp only [stepP] at h ⊢; exact exec_fail _ _ h
  | insertInto n bn f => exact hins n bn f h
  | save n arg ms f =>
    cases ha : sa (Gen.effectiveMode arg ms) (st.cat.get n).isSome with
    | insert bn => simp only [stepP, saveStepP, ha] at h ⊢; exact hins n bn f h
    | create i r => simp only [stepP, saveStepP, ha] at h ⊢; exact exec_fail _ _ h
    | raise => simp only [stepP, saveStepP, ha]

/-! ### path writers (csv / json / parquet): mode handling -/

/-- keys `_validate_mode` sees for each PySpark mode -/
def C14.pathKeys : Mode → List String
  | .default => [Gen.pathMode none none]
  | m => m.names

theorem C14_path_table_sound : ∀ m ∈ Mode.all, ∀ k ∈ C14.pathKeys m, ∀ ex : Bool,
    Gen.validateMode k ex =
      (match ex, m with
       | true, .default | true, .error | true, .errorifexists => PathDecision.refuse
       | true, .ignore => PathDecision.skip
       | _, _ => PathDecision.write) ∧ (k = "append" ↔ m = .append) := by decide

/-- **Path modes.** For every mode, path state and frame: refuse / skip / replace as PySpark does,
    provided the mode reaches the writer (`H_pathModeFromState`) and it is not `append`
    (`D_fileAppend`: DuckDB's writer raises NotImplementedError for it). -/
theorem C14_path_modes_partial (m : Mode) (p : Name) (arg ms : Option String) (f : Frame) (fs : Cat)
    (hm : specMode arg ms = some m) (harg : arg ≠ some "") (hms : ms ≠ some "")
    (h1 : H_pathModeFromState Gen.pathMode arg ms) (h2 : D_fileAppend m) :
    pathStep p arg ms f fs = specPath m p f fs := by
  have hkey : Gen.pathMode arg ms ∈ C14.pathKeys m := by
    cases arg with
    | some a =>
      have ha' : a ≠ "" := fun e => harg (by rw [e])
      have := parse_names a m (by simpa [specMode] using hm)
      have hne : m ≠ .default := by
        intro e; subst e
        simp only [specMode] at hm
        unfold Mode.parse at hm
        repeat' split at hm
        all_goals simp at hm
      have hk : C14.pathKeys m = m.names := by cases m <;> first | rfl | exact absurd rfl hne
      rw [hk]
      simpa [Gen.pathMode, Gen.pyOr, ha'] using this
    | none =>
      cases ms with
      | none =>
        simp only [specMode, Option.some.injEq] at hm
        subst hm
        simp [C14.pathKeys]
      | some s =>
        have hs' : s ≠ "" := fun e => hms (by rw [e])
        simp only [H_pathModeFromState] at h1
        rw [h1]
        have := parse_names s m (by simpa [specMode] using hm)
        have hne : m ≠ .default := by
          intro e; subst e
          simp only [specMode] at hm
          unfold Mode.parse at hm
          repeat' split at hm
          all_goals simp at hm
        have hk : C14.pathKeys m = m.names := by cases m <;> first | rfl | exact absurd rfl hne
        rw [hk]; exact this
  have hmall : m ∈ Mode.all := by cases m <;> simp [Mode.all]
  obtain ⟨hv, happ⟩ := C14_path_table_sound m hmall _ hkey (fs.get p).isSome
  simp only [pathStep, pathStepP, hv]
  simp only [D_fileAppend] at h2
  cases hg : fs.get p with
  | none =>
    cases m <;> simp_all [specPath]
  | some T =>
    cases m <;> simp_all [specPath]

/-! ### options of the file writers and readers

What is decided here is sqlframe's part: which of the caller's options reach the engine's statement, under
which key and with which text, and who wins when a key is given twice.  What DuckDB does with
`COPY … (header False)` or `read_csv(…, header=False)` is the engine's; the check executes the option lists
of the model and of the specification on DuckDB and compares files and tables. -/

def C14.formats : List String := ["csv", "json", "parquet"]

/-- `to_csv` renders exactly the options whose value is not None: `False`, `0` and `""` are values. -/
theorem C14_tocsv_keeps (v : OptVal) : Gen.toCsvKeeps v = !v.isNone := by cases v <;> rfl

/-- The regenerated forwarding tables of `write.csv / json / parquet`: every keyword of the `_write` call is
    the format literal or a parameter under its own name, every parameter of the signature is forwarded. -/
theorem C14_writer_forward_sound : ∀ fmt ∈ C14.formats,
    callOk fmt (Gen.writerParams fmt) (Gen.writerCall fmt) = true := by decide +kernel

/-- **Writer options.** For every format and every set of keyword arguments: the option list of the
    `COPY … TO` statement consists of the format and of exactly the parameters the caller gave a value other
    than None, each under its own name with `str(value)` — whatever the value's truthiness. -/
theorem C14_writer_options (fmt : String) (hf : fmt ∈ C14.formats) (named : Opts) (k s : String) :
    (k, s) ∈ writerRendered fmt named ↔
      (k = "format" ∧ s = fmt) ∨
      (k ∈ Gen.writerParams fmt ∧ (optLookup named k).isNone = false ∧ s = (optLookup named k).pyStr) :=
  writer_options_generic fmt _ _ _ C14_tocsv_keeps (C14_writer_forward_sound fmt hf) named k s

/-- the same, against the specification's list (as sets: the order of options means nothing to the engine) -/
theorem C14_writer_options_spec (fmt : String) (hf : fmt ∈ C14.formats) (named : Opts) (x : String × String) :
    x ∈ writerRendered fmt named ↔ x ∈ toCsvP (fun _ => true) (specWriterOpts fmt (Gen.writerParams fmt) named) := by
  obtain ⟨k, s⟩ := x
  rw [C14_writer_options fmt hf, mem_specWriterOpts]

/-- an explicitly given falsy value reaches the engine (`header=False`, `quoteAll=False`, `compression=""` …) -/
theorem C14_writer_falsy_forwarded (fmt : String) (hf : fmt ∈ C14.formats) (p : String) (hp : p ∈ Gen.writerParams fmt)
    (named : Opts) (v : OptVal) (hv : optLookup named p = v) (hnn : v.isNone = false) :
    (p, v.pyStr) ∈ writerRendered fmt named := by
  rw [C14_writer_options fmt hf]
  exact Or.inr ⟨hp, by rw [hv]; exact hnn, by rw [hv]⟩

/-- The regenerated reader decisions: call options are merged after the stored ones (front end and `load`),
    only None is filtered, every parameter of the front end is forwarded under its own name. -/
theorem C14_reader_flags_sound : ∀ fmt ∈ C14.formats, RFlagsOk (genRFlags fmt) (Gen.readerParams fmt) := by
  intro fmt hf
  simp only [C14.formats, List.mem_cons, List.not_mem_nil, or_false] at hf
  rcases hf with rfl | rfl | rfl
  all_goals
    refine ⟨by decide, by decide, ?_, ?_⟩
    · intro v; cases v <;> rfl
    · intro c hc
      simp only [genRFlags, Gen.readerCall, String.reduceEq, if_true, if_false, Option.some.injEq, reduceCtorEq] at hc
      all_goals (subst hc; exact ⟨by unfold selfForward; decide +kernel, by decide +kernel⟩)

theorem C14_options_merge_sound : Gen.optionsMerge = [.state, .call] ∧ Gen.optionSets = true ∧ Gen.readerStateFresh = true := by decide

/-- **Reader state.** After any sequence of `.option(k, v)` / `.options(**kv)` calls on a fresh reader, the
    stored value of every key is the last one given for it. -/
theorem C14_reader_state (calls : List RCall) (k : String) :
    optLookup (readerState calls) k = lastSet calls k := by
  simp only [readerState, C14_options_merge_sound.1, optLookup, lastSet, (readerState_lookup calls k).2]

/-- **Reader options.** For every format, spelling (`read.csv(…)` or `read.load(…, format=…)`), sequence of
    builder calls and keyword arguments, with or without a schema: for every key that `load` does not consume
    itself, the option list of `read_<fmt>(…)` carries the key iff the specification's value is not None —
    the call's value when one was given, else the last stored one — rendered `str(value)`; falsy values included. -/
theorem C14_reader_options (fmt : String) (hf : fmt ∈ C14.formats) (via : Via) (calls : List RCall) (named : Opts)
    (hnamed : NamedOk (genRFlags fmt) (Gen.readerParams fmt) via named)
    (sc : Option String) (inferred : String) (k s : String) (hk : k ∉ Gen.loadPops) (hc : k ≠ "columns") :
    (k, s) ∈ readerRendered fmt via calls named sc inferred ↔
      (specReaderVal calls named k).isNone = false ∧ s = (specReaderVal calls named k).pyStr := by
  have hst := readerState_lookup calls k
  have hfin := readerFinal_lookup (genRFlags fmt) _ (C14_reader_flags_sound fmt hf) via
    (readerStateP [.state, .call] calls) named hst.1 hnamed sc inferred k hk hc
  have hval : optLookup (readerFinalP (genRFlags fmt) via (readerStateP Gen.optionsMerge calls) named sc inferred) k =
      specReaderVal calls named k := by
    rw [C14_options_merge_sound.1]
    simp only [optLookup, hfin, hst.2, specReaderVal, lastSet]
    cases hg : dictGet named k with
    | none => simp
    | some v =>
      have hv := dictGet_named_notNone named hnamed.nodup hnamed.noNone k v hg
      cases v <;> simp_all [OptVal.isNone]
  have hkeep : ∀ v, (genRFlags fmt).toCsvKeeps v = !v.isNone := C14_tocsv_keeps
  unfold readerRendered readerRenderedP
  rw [mem_toCsvP_dict _ hkeep _ (nodup_readerFinalP _ _ _ _ _ _) k s, hval]

/-- the list the driver prints as the specification is that specification -/
theorem C14_reader_spec_list (calls : List RCall) (named : Opts) (sc : Option String) (columns : Bool)
    (k : String) (v : OptVal) (hk : k ∉ Gen.loadPops) (hc : k ≠ "columns") :
    (k, v) ∈ specReaderOpts Gen.loadPops columns calls named sc ↔ specReaderVal calls named k = v ∧ v.isNone = false :=
  mem_specReaderOpts _ _ _ _ _ k v hk hc

/-- an option of the call overrides a stored one, whatever was stored and however often -/
theorem C14_reader_call_overrides_state (fmt : String) (hf : fmt ∈ C14.formats) (via : Via) (calls : List RCall) (named : Opts)
    (hnamed : NamedOk (genRFlags fmt) (Gen.readerParams fmt) via named) (sc : Option String) (inferred : String)
    (k : String) (v : OptVal) (hk : k ∉ Gen.loadPops) (hc : k ≠ "columns") (hv : (k, v) ∈ named) :
    (k, v.pyStr) ∈ readerRendered fmt via calls named sc inferred := by
  rw [C14_reader_options fmt hf via calls named hnamed sc inferred k _ hk hc]
  have hg := (mem_iff_dictGet named k v hnamed.nodup).1 hv
  have hn := hnamed.noNone (k, v) hv
  have : specReaderVal calls named k = v := by
    simp only [specReaderVal, optLookup, hg, Option.getD_some]
    cases v <;> simp_all [OptVal.isNone]
  rw [this]
  exact ⟨hn, rfl⟩

/-- a csv read with a schema names the columns and their types to the engine -/
theorem C14_reader_columns (via : Via) (calls : List RCall) (named : Opts) (c inferred : String) :
    ("columns", c) ∈ readerRendered "csv" via calls named (some c) inferred := by
  have hkeep : ∀ v, (genRFlags "csv").toCsvKeeps v = !v.isNone := C14_tocsv_keeps
  unfold readerRendered readerRenderedP
  rw [mem_toCsvP_dict _ hkeep _ (nodup_readerFinalP _ _ _ _ _ _)]
  have : dictGet (readerFinalP (genRFlags "csv") via (readerStateP Gen.optionsMerge calls) named (some c) inferred) "columns"
      = some (.str c) := loadPass_columns _ _ _ _ (by decide) (by decide)
  simp [optLookup, this, OptVal.isNone, OptVal.pyStr]

/-! ### counterexamples for the scope hypotheses (witnesses replayed on the real code by the check) -/

def C14.fr1 : Frame := { cols := ["x", "s"], tys := [.int, .str], rows := [[.int 1, .str "a"], [.null, .str "b"]] }
def C14.fr2 : Frame := { cols := ["s", "x"], tys := [.str, .int], rows := [[.str "q", .int 7]] }
def C14.st0 : St := { cat := [] }
def C14.st1 : St := { cat := [("t1", C14.fr1.table)] }

/-- `saveAsTable("t1", mode="append")` on an empty catalog: PySpark creates t1, the model (like the
    code) reports failure and creates nothing. -/
theorem C14_cex_appendTargetExists : creates (Gen.saveAction "append" false) = false →
    (step (.save "t1" (some "append") none C14.fr1) C14.st0).1.cat ≠
      (specStep (.save "t1" (some "append") none C14.fr1) C14.st0.cat).1 := by decide

def C14.fr3 : Frame := { cols := ["y", "x"], tys := [.int, .int], rows := [[.int 100, .int 7]] }
def C14.st2 : St := { cat := [("t2", ⟨["x", "y"], [.int, .int], [[.int 1, .int 10]]⟩)] }

/-- appending a frame with columns (y, x) to t2(x, y): PySpark assigns by name; the model inserts by
    position (x = 100, y = 7 instead of x = 7, y = 100), and reports success. -/
theorem C14_cex_appendByName : Gen.saveAction "append" true = .insert false →
    (step (.save "t2" (some "append") none C14.fr3) C14.st2).1.cat ≠
      (specStep (.save "t2" (some "append") none C14.fr3) C14.st2.cat).1 ∧
    (step (.save "t2" (some "append") none C14.fr3) C14.st2).2.ok = true := by decide

/-- `byName.insertInto("t2")` in a session that never looked t2 up: the cache has no column list,
    `select()` keeps the frame's order, the insert is positional — silently wrong data. -/
theorem C14_cex_byNameSchemaKnown : Gen.byNameSource = .schemaCache →
    (step (.insertInto "t2" true C14.fr3) C14.st2).1.cat ≠ (specStep (.insertInto "t2" true C14.fr3) C14.st2.cat).1 ∧
    (step (.insertInto "t2" true C14.fr3) C14.st2).2.ok = true := by decide

/-- `session.table("t2")`, then t2 is overwritten with columns (y, x): the cached list (x, y) is
    kept, so `session.table("t2")` now returns the columns in the old order. -/
theorem C14_cex_schemaCacheFresh : Gen.addTableSkipsWhenCached = true →
    let ops := [Op.read "t2", Op.save "t2" (some "overwrite") none C14.fr3]
    (step (.read "t2") (run ops C14.st2)).2 ≠ (specStep (.read "t2") (specRun ops C14.st2.cat)).2 := by decide

/-- `df.write.mode("overwrite").csv(p)` on an existing path: the stored mode never reaches
    `_validate_mode`, the write is refused. -/
theorem C14_cex_pathModeFromState : Gen.pathMode none (some "overwrite") ≠ "overwrite" →
    pathStep "p" none (some "overwrite") C14.fr2 [("p", C14.fr1.table)] ≠
      specPath .overwrite "p" C14.fr2 [("p", C14.fr1.table)] := by decide

/-- `df.write.csv(p, sep="|")`: the model (like the code) pastes the value into the statement as it is, `sep |`,
    where the specification has the string value `|` (handed to the engine as the SQL string `'|'`); `|` is not a bare word, so DuckDB cannot read the statement. -/
theorem C14_cex_optionValueQuoted :
    writerRendered "csv" [("sep", .str "|")] = [("format", "csv"), ("sep", "|")] ∧
    specWriterOpts "csv" (Gen.writerParams "csv") [("sep", .str "|")] = [("format", .str "csv"), ("sep", .str "|")] ∧
    ¬ H_optionValueQuoted [.str "|"] := by decide

/-! ### non-vacuity: concrete histories meet every hypothesis -/

def C14.exOps : List Op :=
  [ .save "t1" none none C14.fr1,                      -- creates
    .save "t1" (some "ignore") none C14.fr2,           -- left untouched
    .save "t2" none (some "overwrite") C14.fr3,        -- creates through .mode("overwrite")
    .read "t2",
    .insertInto "t2" true { C14.fr3 with rows := [[.int 5, .int 6]] },   -- by name, cache known and fresh
    .save "t1" (some "append") none { C14.fr1 with rows := [[.int 9, .null]] },
    .save "t1" (some "error") none C14.fr1,            -- refused
    .save "t2" (some "overwrite") none { C14.fr3 with fails := true },   -- failing SELECT: nothing changes
    .drop "t1" ]

example : CatWF C14.st0.cat ∧ InScopeRun Gen.saveAction genFlags C14.exOps C14.st0 := by decide
example : (run C14.exOps C14.st0).cat =
    [("t2", ⟨["y", "x"], [.int, .int], [[.int 100, .int 7], [.int 5, .int 6]]⟩)] := by decide
example : ((Op.save "t1" (some "overwrite") none C14.fr2).WF ∧
    InScope Gen.saveAction genFlags (.save "t1" (some "overwrite") none C14.fr2) C14.st1) := by decide
example : C14.fr3.cols.Perm ["x", "y"] := by decide
example : writerState [.byName, .mode (some "append")] = { byName := true, mode := some "append" } := by decide
example : H_pathModeFromState Gen.pathMode (some "ignore") (some "overwrite") ∧ D_fileAppend .ignore := by decide

example : ("header", "False") ∈ writerRendered "csv" [("header", .bool false), ("compression", .str "gzip")] := by decide
example : writerRendered "csv" [("header", .bool false)] = [("format", "csv"), ("header", "False")] := by decide
example : NamedOk (genRFlags "csv") (Gen.readerParams "csv") .method [("header", .bool false)] :=
  ⟨by decide, by decide, fun _ _ => by decide⟩
example : readerRendered "csv" .method [.option "header" (.bool true), .option "compression" (.str "gzip")]
    [("header", .bool false)] (some "{'x': 'bigint'}") "" =
    [("header", "False"), ("compression", "gzip"), ("columns", "{'x': 'bigint'}")] := by decide
example : H_optionValueQuoted [.str "gzip", .bool false, .int 0, .str "true"] := by decide
example : specReaderVal [.option "header" (.bool true), .options [("header", .str "false")]] [] "header" = .str "false" := by decide

/-! ### the full statement, for the record

C14 as given: every write followed by the matching read gives back the frame (rows, names, types),
the modes behave as specified, the catalog reflects the history, and a failing write changes nothing.

`C14_full_statement` below is the table half at full strength (no hypotheses beyond well-formedness).
It is NOT a theorem of the model on the pinned tree: `C14_cex_*` refute it for append-to-missing,
append-by-name, byName without a cached schema and a stale schema cache; `C14_history` proves it
under the named hypotheses.

The option theorems (`C14_writer_options`, `C14_reader_options`, …) decide sqlframe's part of a write / read with
options: which options reach the statement, with which text, and who wins — not what the engine then does.

NOT decided by any theorem here, only exercised by the check against the running code:
* what DuckDB does with an option of `COPY … TO` / `read_<format>` (header, compression, sep, …; which ones it
  rejects): the option lists of the model and of the specification are executed on DuckDB itself;
* that csv / json / parquet files written by DuckDB's `COPY … TO` read back (through `read_<format>`)
  to the same values and types — that round trip is DuckDB's;
* file-level atomicity of a failing `COPY … TO` (DuckDB writes `tmp_<file>` and renames) — the model's
  `pathStep` *assumes* a failing write leaves the path alone;
* the engine's transactional guarantee itself (`exec` is the assumption; `C14_failed_write_keeps_state`
  only shows sqlframe adds no second statement that could break it). -/
def C14_full_statement : Prop :=
  ∀ (ops : List Op) (st : St), CatWF st.cat → (∀ o ∈ ops, o.WF) →
    (run ops st).cat = specRun ops st.cat ∧
    ∀ n, (step (.read n) (run ops st)).2 = (specStep (.read n) (specRun ops st.cat)).2

end Sqlframe
