/-
Props/C17.lean — property theorems for C17 (functions compute Spark's values), limited to what sqlframe itself
computes: its emulations on DuckDB (Impl/C17.lean), with every constant regenerated from the source
(Gen/Emulations.lean).  `emul_f args = sparkSpec_f args` on the stated ordinary domain, over unbounded
integers and lists.  Engine primitives `duck…` carry an ASSUMED meaning (validated by stream B).
The values of engine-native pass-through functions are not decided here (see `C17_full_statement`).
-/
import SqlframeModel.Impl.C17
import SqlframeModel.Impl.C17Soundex
import SqlframeModel.Lemmas.C17Compose
namespace Sqlframe
open Gen.Emul C17

-- factorial ------------------------------------------------------------------------------------------

/-- DuckDB: FACTORIAL(CAST(n AS INT)) is Spark's factorial on Spark's whole non-NULL range 0 … 20. -/
theorem C17_factorial_duck : ∀ n : Nat, n ≤ 20 → emulFactorial n = sparkFactorial n := by
  intro n h
  have h1 : (0 : Int) ≤ (n : Int) := Int.natCast_nonneg n
  have h2 : (n : Int) ≤ 20 := by omega
  simp [emulFactorial, sparkFactorial, duckFactorial, h1, h2]

/-- The generated CASE table (BigQuery's emulation): every row 1 … 20 is n!. -/
theorem C17_factorial_table : ∀ n ∈ List.range 21, 1 ≤ n → emulFactorialCase n = some (fact n) := by decide

/-- … and the n = 0 row: the table either has it (0! = 1) or answers NULL there (it does today: the CASE starts
    at 1, so `factorial(0)` is NULL on BigQuery where Spark says 1 — an observation outside C17's DuckDB scope). -/
theorem C17_factorial_table_zero : emulFactorialCase 0 = some 1 ∨ emulFactorialCase 0 = none := by decide

-- index bases ------------------------------------------------------------------------------------------

private theorem duckIndex_eq_spark (xs : List Int) (k : Int) (hk : k ≠ 0) : duckIndex xs k = sparkElementAt xs k := by
  simp only [duckIndex, sparkElementAt]
  by_cases h : 0 < k
  · simp [h]
  · have h' : k < 0 := by omega
    simp [h, h']

private theorem elementAtWith_eq (shift : Int) (h : shift + sqlglotBracketOffset = 0) (xs : List Int) (k : Int) :
    emulElementAtWith shift xs k = duckIndex xs k := by
  have e : k + shift + sqlglotBracketOffset = k := by omega
  unfold emulElementAtWith
  rw [e]

/-- element_at: the -1 of `element_at_using_brackets` cancels sqlglot's +1, so DuckDB's 1-based `xs[k]` is Spark's
    element_at for every list and every k ≠ 0 (negative k from the end, NULL outside). -/
theorem C17_element_at (xs : List Int) (k : Int) (hk : k ≠ 0) : emulElementAt xs k = sparkElementAt xs k := by
  unfold emulElementAt
  rw [elementAtWith_eq elementAtShift (by decide) xs k]
  exact duckIndex_eq_spark xs k hk

theorem C17_try_element_at (xs : List Int) (k : Int) (hk : k ≠ 0) : emulTryElementAt xs k = sparkElementAt xs k := by
  unfold emulTryElementAt
  rw [elementAtWith_eq tryElementAtShift (by decide) xs k]
  exact duckIndex_eq_spark xs k hk

/-- getItem: the +1 of `Column.getItem` turns Spark's 0-based index into element_at's 1-based one. -/
theorem C17_getItem (xs : List Int) (k : Int) (hk : 0 ≤ k) : emulGetItem xs k = sparkGetItem xs k := by
  unfold emulGetItem emulElementAt
  rw [elementAtWith_eq elementAtShift (by decide) xs _]
  have e : k + getItemShift = k + 1 := by simp [getItemShift]
  rw [e]
  have h : 0 < k + 1 := by omega
  simp only [duckIndex, h, ↓reduceIte, sparkGetItem]
  congr 1
  omega

/-- slice: with the end at `start + length - 1` LIST_SLICE gives Spark's slice for every list, every start ≥ 1
    and every length ≥ 0 … -/
theorem C17_slice_of_offset (xs : List Int) (s l : Int) (hs : 1 ≤ s) (hl : 0 ≤ l) :
    emulSliceWith (-1) xs s l = sparkSlice xs s l := by
  have h1 : ¬ s < 0 := by omega
  have h2 : ¬ s = 0 := by omega
  have h3 : ¬ s < 1 := by omega
  have h4 : 0 < s := by omega
  have h5 : ¬ (s + l + -1 < 0) := by omega
  have e : s + l + -1 - s + 1 = l := by omega
  simp [emulSliceWith, duckListSlice, sparkSlice, h1, h2, h3, h4, h5, e]

/-- … also for a negative start inside the list whose window ends before the list does … -/
theorem C17_slice_of_offset_neg (xs : List Int) (s l : Int) (hs : s < 0) (hin : -s ≤ xs.length) (hl : 0 ≤ l)
    (hend : s + l + -1 < 0) : emulSliceWith (-1) xs s l = sparkSlice xs s l := by
  have h1 : ¬ (0 < s) := by omega
  have h2 : ¬ ((xs.length : Int) + s + 1 < 1) := by omega
  have h3 : (-s).toNat ≤ xs.length := by omega
  have e1 : ((xs.length : Int) + s).toNat = xs.length - (-s).toNat := by omega
  have e2 : ((xs.length : Int) + (s + l + -1) + 1 - ((xs.length : Int) + s + 1) + 1).toNat = l.toNat := by omega
  simp [emulSliceWith, duckListSlice, sparkSlice, hs, hend, h1, h2, h3, e2]
  rw [e1]

/-- … which is what the code computes once the generated offset is -1 (`H_sliceEnd`). -/
theorem C17_slice_partial (h : H_sliceEnd) (xs : List Int) (s l : Int) (hs : s ≠ 0) (hl : 0 ≤ l)
    (hn : H_sliceNegativeStart xs.length s l) : emulSlice xs s l = sparkSlice xs s l := by
  unfold H_sliceEnd at h
  unfold H_sliceNegativeStart at hn
  simp only [emulSlice, h] at hn ⊢
  by_cases hp : 0 < s
  · exact C17_slice_of_offset xs s l (by omega) hl
  · have hneg : s < 0 := by omega
    have hh : -s ≤ (xs.length : Int) ∧ s + l + -1 < 0 := by
      cases hn with
      | inl h0 => exact absurd h0 hp
      | inr h1 => exact h1
    exact C17_slice_of_offset_neg xs s l hneg hh.1 hl hh.2

/-- counterexample for `H_sliceNegativeStart`: even with the end at `start + length - 1`, slice(xs, -1, 2) runs
    past the end, LIST_SLICE gets the end 0 and returns [] where Spark returns the last element. -/
theorem C17_cex_sliceNegativeStart :
    emulSliceWith (-1) [10, 20, 30, 40, 50] (-1) 2 = [] ∧ sparkSlice [10, 20, 30, 40, 50] (-1) 2 = [50] := by decide

/-- counterexample for `H_sliceEnd`: with the end at `start + length`, slice([10,20,30,40,50], 2, 2) has 3 elements. -/
theorem C17_cex_sliceEnd : sliceEndOffset = 0 →
    emulSlice [10, 20, 30, 40, 50] 2 2 = [20, 30, 40] ∧ sparkSlice [10, 20, 30, 40, 50] 2 2 = [20, 30] := by
  intro h; simp only [emulSlice, h]; decide

-- array_position ---------------------------------------------------------------------------------------

/-- array_position on a non-NULL array: COALESCE(ARRAY_POSITION, 0) is Spark's 1-based position or 0. -/
theorem C17_array_position (g : Bool) (xs : List Int) (v : Int) :
    emulArrayPositionWith g (some xs) v = sparkArrayPosition (some xs) v := by
  simp [emulArrayPositionWith, sparkArrayPosition, duckCoalesce, arrayPositionDefault]

/-- with the NULL guard the emulation is Spark's array_position on NULL arrays too -/
theorem C17_array_position_guarded (xs : Option (List Int)) (v : Int) :
    emulArrayPositionWith true xs v = sparkArrayPosition xs v := by
  cases xs with
  | none => simp [emulArrayPositionWith, sparkArrayPosition]
  | some l => exact C17_array_position true l v

theorem C17_array_position_partial (xs : Option (List Int)) (v : Int) (h : H_arrayPositionNullArray xs) :
    emulArrayPosition xs v = sparkArrayPosition xs v := by
  unfold H_arrayPositionNullArray at h
  unfold emulArrayPosition
  cases h with
  | inl hg => rw [hg]; exact C17_array_position_guarded xs v
  | inr hs =>
    cases xs with
    | none => simp at hs
    | some l => exact C17_array_position _ l v

/-- counterexample for `H_arrayPositionNullArray`: without the guard the COALESCE turns Spark's NULL into 0. -/
theorem C17_cex_arrayPositionNullArray : arrayPositionGuardsNull = false →
    emulArrayPosition none 1 = some arrayPositionDefault ∧ sparkArrayPosition none 1 = none := by
  intro h; simp [emulArrayPosition, emulArrayPositionWith, h, sparkArrayPosition, duckCoalesce]

-- sequence ---------------------------------------------------------------------------------------------

/-- sequence: GENERATE_SERIES is Spark's sequence whenever a step is given or the bounds ascend. -/
theorem C17_sequence_partial (a b : Int) (step : Option Int) (h : H_sequenceDefaultStep a b step) :
    emulSequence a b step = sparkSequence a b step := by
  unfold H_sequenceDefaultStep at h
  cases step with
  | some s => simp [emulSequence, emulSequenceWith, sparkSequence]
  | none =>
    have h' : sequenceDefaultStep a b = (if a ≤ b then 1 else -1) := by simpa using h
    simp [emulSequence, emulSequenceWith, sparkSequence, h']

/-- length law: an ascending sequence with step s > 0 has ⌊(b - a) / s⌋ + 1 elements and starts at a. -/
theorem C17_sequence_length (a b s : Int) (hs : 0 < s) (hab : a ≤ b) :
    (emulSequence a b (some s)).length = ((b - a) / s).toNat + 1 ∧ (emulSequence a b (some s)).head? = some a := by
  simp [emulSequence, emulSequenceWith, duckGenerateSeries, hs, hab, List.range_succ_eq_map]

/-- counterexample for `H_sequenceDefaultStep`: sequence(5, 1) is empty instead of [5,4,3,2,1]. -/
theorem C17_cex_sequenceDefaultStep : sequenceDefaultStep 5 1 = 1 →
    emulSequence 5 1 none = [] ∧ sparkSequence 5 1 none = [5, 4, 3, 2, 1] := by
  intro h; simp only [emulSequence, emulSequenceWith, Option.getD_none, h]; decide

-- rint -------------------------------------------------------------------------------------------------

/-- rint: ROUND(x, 0) is Spark's rint for every rational x = n/d that is not exactly half-way. -/
theorem C17_rint_partial (n d : Int) (h : H_rintTies n d) : emulRint n d = sparkRint n d := by
  unfold H_rintTies at h
  unfold emulRint emulRintWith
  cases h with
  | inl he => simp [he, duckRoundEven0, sparkRint]
  | inr ht =>
    have hr : duckRound0 n d = sparkRint n d := by
      simp only [duckRound0, sparkRint]
      by_cases h1 : 2 * (n % d) < d
      · simp [h1]
      · by_cases h2 : d < 2 * (n % d)
        · simp [h1, h2]
        · exfalso; omega
    have he : duckRoundEven0 n d = sparkRint n d := by simp [duckRoundEven0, sparkRint]
    split
    · exact he
    · exact hr

/-- counterexample for `H_rintTies`: with ROUND, 2.5 rounds to 3 on DuckDB, Spark's rint gives 2. -/
theorem C17_cex_rintTies : rintDuckFunction = "ROUND" → emulRint 5 2 = 3 ∧ sparkRint 5 2 = 2 := by
  intro h; simp only [emulRint, emulRintWith, h]; decide

-- overlay ----------------------------------------------------------------------------------------------

/-- overlay: CONCAT(SUBSTRING(src, 1, pos-1), replace, SUBSTRING(src, pos+len, LENGTH(src))) is Spark's overlay for
    every source, replacement, pos ≥ 1 and len ≥ 0 (len defaulting to the replacement's length). -/
theorem C17_overlay (s r : List Char) (pos : Int) (len : Option Int) (hp : 1 ≤ pos) (hl : 0 ≤ len.getD r.length) :
    emulOverlay s r pos len = sparkOverlay s r pos len := by
  simp only [emulOverlay, sparkOverlay, duckSubstring, overlayHeadStart, overlayHeadLen, overlayTailStart, lin3]
  have e1 : (1 : Int) * pos + 0 * len.getD ↑r.length + -1 = pos - 1 := by omega
  have e2 : ((1 : Int) * pos + 1 * len.getD ↑r.length + 0 - 1).toNat = (pos - 1).toNat + (len.getD ↑r.length).toNat := by omega
  rw [e1, e2]
  simp only [Int.sub_self, Int.toNat_zero, List.drop_zero, Int.toNat_natCast]
  congr 2
  apply List.take_of_length_le
  simp

-- date arithmetic ---------------------------------------------------------------------------------------

/-- date_add / date_sub with an int: the negative-days flip to the other function keeps d ± n for every n. -/
theorem C17_date_add (d n : Int) : emulDateAdd d n = sparkDateAdd d n ∧ emulDateSub d n = sparkDateSub d n := by
  simp only [emulDateAdd, emulDateSub, sparkDateAdd, sparkDateSub, dateAddFlip, dateSubFlip]
  constructor <;> split <;> omega

-- array_min / array_max -------------------------------------------------------------------------------

/-- array_min / array_max: element_at(sorted, 1) and element_at(sorted, -1) are the ends of the sorted list. -/
theorem C17_array_min_max (sorted : List Int) :
    emulArrayMinSorted sorted = sorted.head? ∧ emulArrayMaxSorted sorted = sorted.getLast? := by
  constructor
  · simp [emulArrayMinSorted, arrayMinIndex, emulElementAt, emulElementAtWith, elementAtShift, sqlglotBracketOffset, duckIndex, List.head?_eq_getElem?]
  · simp only [emulArrayMaxSorted, arrayMaxIndex, emulElementAt, emulElementAtWith, elementAtShift, sqlglotBracketOffset, duckIndex]
    cases sorted with
    | nil => simp
    | cons x xs => simp [List.getLast?_eq_getElem?]

-- log1p / expm1 ------------------------------------------------------------------------------------------

/-- log1p = ln(x + 1), expm1 = exp(x) - 1, over any commutative addition. -/
theorem C17_log1p_expm1 {R : Type} (o : RealOps R) (x : R) :
    emulLog1p o x = sparkLog1p o x ∧ emulExpm1 o x = sparkExpm1 o x := by
  simp [emulLog1p, sparkLog1p, emulExpm1, sparkExpm1, log1pAddend, expm1Addend, o.add_comm]

-- argument re-orderings ----------------------------------------------------------------------------------

/-- locate(substr, str, pos) / instr(col, substr): the haystack goes to `this`, the needle to `substr`. -/
theorem C17_arg_orders {α β γ : Type} (strpos : α → α → Option β → γ) (dflt substr str : α) (pos : Option β) :
    emulLocate strpos dflt substr str pos = strpos str substr pos ∧
    emulInstr (fun a b => strpos a b none) dflt str substr = strpos str substr none := by
  simp [emulLocate, emulInstr, pick, locateThis, locateSubstr, locatePosition, instrThis, instrSubstr]

/-- lpad / rpad: (column, length, fill) in that order, left and right respectively. -/
theorem C17_pad_orders {σ : Type} (padFn : Bool → σ → Int → σ → σ) (dS col p : σ) (n : Int) :
    emulPad padFn lpadThis lpadLength lpadFill lpadIsLeft dS col n p = padFn true col n p ∧
    emulPad padFn rpadThis rpadLength rpadFill rpadIsLeft dS col n p = padFn false col n p := by
  simp [emulPad, pick, lpadThis, lpadLength, lpadFill, lpadIsLeft, rpadThis, rpadLength, rpadFill, rpadIsLeft]

-- soundex (util.soundex registered as DuckDB's SOUNDEX) ---------------------------------------------------

private theorem sx_kinds_small : ∀ n, n < 128 → emulKind n = sparkKind n := by decide

private theorem sx_table_ascii : ∀ r ∈ soundexTable, ∀ x ∈ r.1, x < 128 := by decide
private theorem sx_transp_ascii : ∀ x ∈ soundexTransparent, x < 128 := by decide

/-- soundex, per character and for EVERY code point: the generated code table + transparent letters of
    `util.soundex` classify it exactly as Spark's US_ENGLISH_MAPPING does (coded digit / H-W transparent / reset). -/
theorem C17_soundex_kinds (n : Nat) : emulKind n = sparkKind n := by
  by_cases h : n < 128
  · exact sx_kinds_small n h
  · have h1 : sxCodeN n = none := by
      unfold sxCodeN
      rw [Option.map_eq_none_iff, List.find?_eq_none]
      intro r hr hc
      have := sx_table_ascii r hr n (by simpa using hc)
      omega
    have h2 : n ∉ soundexTransparent := by
      intro hm
      have := sx_transp_ascii n hm
      omega
    have h3 : isUpLetter n = false := by simp [isUpLetter]; omega
    simp [emulKind, sparkKind, h1, h2, h3]

private def sxCodedOk (n : Nat) : Bool := match sparkKind n with | .coded d => decide (49 ≤ d ∧ d ≤ 54) | _ => true
private theorem sx_codedOk_small : ∀ n, n < 128 → sxCodedOk n = true := by decide

private theorem sx_coded_range (n d : Nat) (h : sparkKind n = .coded d) : 49 ≤ d ∧ d ≤ 54 := by
  by_cases hn : n < 128
  · have := sx_codedOk_small n hn
    simp [sxCodedOk, h] at this
    exact this
  · have h3 : isUpLetter n = false := by simp [isUpLetter]; omega
    simp [sparkKind, h3] at h

private def SxRel (e : ESt) (s : SSt) : Prop :=
  e.res = s.res ∧ e.count = s.n ∧
    (match e.last with | some d => s.last = d | none => ¬ (49 ≤ s.last ∧ s.last ≤ 54))

private theorem step_rel (e : ESt) (s : SSt) (c : Nat) (h : SxRel e s) : SxRel (emulStep e c) (sparkStep s c) := by
  obtain ⟨hr, hc, hl⟩ := h
  have hlen : soundexLen = 4 := rfl
  unfold emulStep sparkStep
  rw [C17_soundex_kinds c, hlen, hc]
  by_cases hfull : 4 ≤ s.n
  · simp [hfull]; exact ⟨hr, hc, hl⟩
  · simp only [hfull, ↓reduceIte]
    cases hk : sparkKind c with
    | transp => dsimp only; exact ⟨hr, hc, hl⟩
    | reset => dsimp only; exact ⟨hr, rfl, by simp⟩
    | coded d =>
      dsimp only
      have hd := sx_coded_range c d hk
      cases hlast : e.last with
      | none =>
        rw [hlast] at hl
        have hne : d ≠ s.last := by intro heq; rw [← heq] at hl; exact hl hd
        simp [hne, hr, hc, SxRel]
      | some x =>
        rw [hlast] at hl
        simp only at hl
        by_cases hx : d = x
        · subst hx
          simp [hl, SxRel, hr, hc]
        · have h1 : some d ≠ some x := by simpa using hx
          have h2 : d ≠ s.last := by rw [hl]; exact hx
          simp [h1, h2, SxRel, hr, hc]

private theorem run_rel (rest : List Nat) : ∀ e s, SxRel e s → SxRel (rest.foldl emulStep e) (rest.foldl sparkStep s) := by
  induction rest with
  | nil => intro e s h; exact h
  | cons c cs ih => intro e s h; exact ih _ _ (step_rel e s c h)

private theorem init_rel (c : Nat) (hc : isUpLetter c = true) : SxRel ⟨[c], 1, sxCodeN c⟩ ⟨[c], 1, sparkCodeOf c⟩ := by
  refine ⟨rfl, rfl, ?_⟩
  have hk := C17_soundex_kinds c
  simp only [emulKind, sparkKind, hc, ↓reduceIte] at hk
  cases hcode : sxCodeN c with
  | some d =>
    rw [hcode] at hk
    simp only at hk
    by_cases h7 : sparkCodeOf c = 55
    · simp [h7] at hk
    · by_cases h0 : sparkCodeOf c = 48
      · simp [h7, h0] at hk
      · simp [h7, h0] at hk
        simp [hk]
  | none =>
    rw [hcode] at hk
    simp only
    by_cases h7 : sparkCodeOf c = 55
    · omega
    · by_cases h0 : sparkCodeOf c = 48
      · omega
      · simp [h7, h0] at hk
        split at hk <;> simp at hk

/-- soundex: for EVERY string that starts with an ASCII letter, `util.soundex` (DuckDB's SOUNDEX) is Spark's soundex. -/
theorem C17_soundex_partial (s : List Nat) (h : H_soundexFirstLetter s) : emulSoundexN s = sparkSoundexN s := by
  obtain ⟨c, rest, hs, hc⟩ := h
  unfold emulSoundexN sparkSoundexN
  rw [hs]
  simp only [hc, ↓reduceIte]
  obtain ⟨hr, hn, _⟩ := run_rel rest _ _ (init_rel c hc)
  simp only [emulRun, sparkRun]
  rw [hr, hn]
  rfl

private theorem step_inv (e : ESt) (c : Nat) (h : e.res.length = e.count ∧ e.count ≤ soundexLen) :
    (emulStep e c).res.length = (emulStep e c).count ∧ (emulStep e c).count ≤ soundexLen := by
  unfold emulStep
  by_cases hf : soundexLen ≤ e.count
  · simp [hf]; exact h
  · simp only [hf, ↓reduceIte]
    cases emulKind c with
    | transp => exact h
    | reset => exact h
    | coded d =>
      dsimp only
      by_cases hd : some d ≠ e.last
      · rw [if_pos hd]
        simp only [List.length_append, List.length_singleton]
        omega
      · rw [if_neg hd]; exact h

private theorem run_inv (rest : List Nat) : ∀ e : ESt, (e.res.length = e.count ∧ e.count ≤ soundexLen) →
    ((rest.foldl emulStep e).res.length = (rest.foldl emulStep e).count ∧ (rest.foldl emulStep e).count ≤ soundexLen) := by
  induction rest with
  | nil => intro e h; exact h
  | cons c cs ih => intro e h; exact ih _ (step_inv e c h)

/-- soundex of a non-empty string always has `soundexLen` (= 4) characters: the first one + digits / padding. -/
theorem C17_soundex_length (s : List Nat) (h : s ≠ []) : (emulSoundexN s).length = soundexLen := by
  unfold emulSoundexN
  cases hs : s.map upN with
  | nil => simp at hs; exact absurd hs h
  | cons c rest =>
    have hi := run_inv rest ⟨[c], 1, sxCodeN c⟩ ⟨rfl, (by show 1 ≤ soundexLen; decide)⟩
    simp only [emulRun, List.length_append, List.length_replicate]
    omega

private theorem step_hw (e : ESt) (x : Nat) (hx : emulKind x = .transp) : emulStep e x = e := by
  unfold emulStep
  by_cases hf : soundexLen ≤ e.count
  · simp [hf]
  · simp [hf, hx]

/-- the H/W rule for ALL strings: deleting an H or W (any case) after the first character never changes the code,
    so two same-coded consonants separated only by H/W collapse exactly as adjacent ones do. -/
theorem C17_soundex_hw_transparent (c : Nat) (a b : List Nat) (x : Nat) (hx : emulKind (upN x) = .transp) :
    emulSoundexN (c :: (a ++ x :: b)) = emulSoundexN (c :: (a ++ b)) := by
  simp only [emulSoundexN, List.map_cons, List.map_append, emulRun, List.foldl_append, List.foldl_cons]
  rw [step_hw _ _ hx]

/-- H, W, h, w are transparent today (generated `soundexTransparent`) -/
example : emulKind (upN 72) = .transp ∧ emulKind (upN 87) = .transp ∧ emulKind (upN 104) = .transp ∧ emulKind (upN 119) = .transp := by decide

def sxEnc (s : String) : List Nat := s.toList.map Char.toNat

/-- Spark's values (recorded from PySpark 3.5.9) for the classic H/W and same-code-neighbour names -/
example : emulSoundexN (sxEnc "Ashcraft") = sxEnc "A261" ∧ emulSoundexN (sxEnc "Tymczak") = sxEnc "T522" ∧
    emulSoundexN (sxEnc "Pfister") = sxEnc "P236" ∧ emulSoundexN (sxEnc "Robert") = sxEnc "R163" := by decide
example : H_soundexFirstLetter (sxEnc "Ashcraft") := ⟨65, (sxEnc "shcraft").map upN, by decide, by decide⟩

/-- counterexample for `H_soundexFirstLetter`: Spark hands a string that does not start with a letter back unchanged,
    `util.soundex` encodes it ("  pad  " -> " 130"). -/
theorem C17_cex_soundexFirstLetter :
    emulSoundexN (sxEnc "  pad  ") = sxEnc " 130" ∧ sparkSoundexN (sxEnc "  pad  ") = sxEnc "  pad  " := by decide

-- ==========================================================================================================
-- compositions around engine functions (Impl/C17Compose.lean, Gen/EmulCompose.lean)
-- ==========================================================================================================


theorem C17_levenshtein_partial (d t : Option Int) (h : H_levenshteinNullInput d t) :
    emulLevenshtein d t = sparkLevenshtein d t := by
  unfold H_levenshteinNullInput at h
  cases d with
  | none =>
    cases t with
    | none => rfl
    | some th => simp at h
  | some dv =>
    cases t with
    | none => rfl
    | some th =>
      simp [emulLevenshtein, emulLevenshteinWith, sparkLevenshtein, levOperand, cmpOf, levThresholdCmp, levThresholdLeft,
        levThresholdRight, levThresholdThen, levThresholdElse]
      split <;> rfl

/-- with both inputs present: a threshold never changes a distance it admits and answers exactly -1 otherwise, and
    raising the threshold never loses an answer -/
theorem C17_levenshtein_threshold (d t : Int) (hd : 0 ≤ d) :
    emulLevenshtein (some d) (some t) = some (if d ≤ t then d else -1) ∧
    (∀ t', t ≤ t' → emulLevenshtein (some d) (some t) = some d → emulLevenshtein (some d) (some t') = some d) := by
  have e : ∀ t, emulLevenshtein (some d) (some t) = some (if d ≤ t then d else -1) := fun t => by
    rw [C17_levenshtein_partial (some d) (some t) (Or.inl rfl)]; rfl
  refine ⟨e t, ?_⟩
  intro t' htt h
  rw [e t] at h
  rw [e t']
  have hdt : d ≤ t := by
    by_cases hc : d ≤ t
    · exact hc
    · simp [hc] at h; omega
  have : d ≤ t' := by omega
  simp [this]

/-- the assumed engine primitive at its edges: the distance to / from the empty string is the other string's length -/
theorem C17_levenshtein_empty (s : List Char) : duckLevenshtein [] s = s.length ∧ duckLevenshtein s [] = s.length := by
  constructor
  · simp [duckLevenshtein, List.range_succ]
  · simp [duckLevenshtein, List.range_succ, lev_fold_nil]

theorem C17_cex_levenshteinNullInput :
    emulLevenshtein none (some 2) = some levThresholdElse ∧ sparkLevenshtein none (some 2) = none := by decide

theorem C17_dayofweek (o : Int) : emulDayOfWeek o = sparkDayOfWeek o ∧ 1 ≤ emulDayOfWeek o ∧ emulDayOfWeek o ≤ 7 := by
  simp only [emulDayOfWeek, sparkDayOfWeek, duckDayOfWeek, dayofweekDuckAddend]
  refine ⟨trivial, ?_, ?_⟩ <;> omega

theorem C17_nanvl_partial {α : Type} (nan : α → Bool) (c1 c2 : Option α) (h : H_nanvlNullInput c1) :
    emulNanvl nan c1 c2 = sparkNanvl nan c1 c2 := by
  unfold H_nanvlNullInput at h
  cases c1 with
  | none => simp at h
  | some v =>
    simp [emulNanvl, emulNanvlWith, sparkNanvl, nanvlNegated, nanvlTested, nanvlThen, nanvlElse]
    cases nan v <;> simp

theorem C17_cex_nanvlNullInput (nan : Int → Bool) : emulNanvl nan none (some 1) = some 1 ∧ sparkNanvl nan none (some 1) = none := by
  simp [emulNanvl, emulNanvlWith, sparkNanvl, nanvlTested, nanvlElse]

/-- the splice loop, for EVERY list of segments and columns of matching lengths: segment, column, segment, … in order;
    in particular an EMPTY segment (two adjacent placeholders, a placeholder first or last) drops nothing. -/
theorem C17_format_values (values cols : List (List Char)) (h : values.length = cols.length + 1) (hc : cols ≠ []) :
    emulFormatValues values cols = some (interleave values cols) := format_values values cols h hc

/-- nothing is dropped and nothing is added: the spliced text has exactly the characters of all segments and all columns -/
theorem C17_format_length (values cols : List (List Char)) (h : values.length = cols.length + 1) (hc : cols ≠ []) :
    ∃ out, emulFormatValues values cols = some out ∧ out.length = (values.map List.length).sum + (cols.map List.length).sum :=
  ⟨_, format_values values cols h hc, interleave_length values cols h⟩

/-- format_string on DuckDB, for EVERY format made of text and plain %s / %d placeholders (one per column, at least
    one) and every list of column texts: the `||` splice is the text java.util.Formatter produces. -/
theorem C17_format_string_partial (fmt : List Char) (cols : List (List Char)) (h : H_formatPlainPlaceholders fmt cols) :
    emulFormat fmt cols = sparkFormat fmt cols := by
  obtain ⟨hp, hl, hc⟩ := h
  have hL : fmtPlaceholderLetters = ['d', 's'] := rfl
  unfold emulFormat splitFmt
  rw [hL, format_values _ _ hl hc, spark_split fmt cols hp hl]

/-- counterexamples for `H_formatPlainPlaceholders`: a literal `%%` is copied as two characters, a format without a
    placeholder raises (cols[0]), a width is not a placeholder the split knows (arity error) -/
theorem C17_cex_formatPlainPlaceholders :
    (emulFormat "100%%".toList ["a".toList] = none ∧ emulFormat "%s%%".toList ["a".toList] = some "a%%".toList ∧
      sparkFormat "%s%%".toList ["a".toList] = some "a%".toList) ∧
    (emulFormat "hello".toList [] = none ∧ sparkFormat "hello".toList [] = some "hello".toList) ∧
    emulFormat "%5d".toList ["7".toList] = none := by decide

example : H_formatPlainPlaceholders "k=%s%s%d;".toList ["ab".toList, "cd".toList, "7".toList] ∧
    emulFormat "k=%s%s%d;".toList ["ab".toList, "cd".toList, "7".toList] = some "k=abcd7;".toList := by decide

/-- Columns are values: for EVERY program of F.when / .when / .otherwise / operator steps, in which any earlier column
    may be reused any number of times, each binding of sqlframe's object heap means what PySpark's immutable column
    means — because Column.when and Column.otherwise work on a copy of the receiver (the generated flags). -/
theorem C17_when_chain_pure (prog : List Step) : (hrun prog).view = prun prog := by
  have h1 : whenCopiesReceiver = true := rfl
  have h2 : otherwiseCopiesReceiver = true := rfl
  unfold hrun hrunWith prun
  rw [h1, h2]
  have := (run_ok prog ⟨[], []⟩ (by intro e he; simp at he)).2
  simpa [HSt.view] using this

/-- frame: whatever is derived LATER — from this column or from any other — the meaning of a column that already exists
    does not change (a kept prefix `base` stays `base`). -/
theorem C17_when_frame (prog more : List Step) (j : Nat) (hj : j < (hrun prog).view.length) :
    (hrun (prog ++ more)).view[j]? = (hrun prog).view[j]? := by
  rw [C17_when_chain_pure] at hj ⊢
  rw [C17_when_chain_pure]
  unfold prun at hj ⊢
  rw [List.foldl_append]
  obtain ⟨ext, h⟩ := prun_prefix more (prog.foldl pstep [])
  rw [h, List.getElem?_append_left hj]

/-- what `.when(c, v)` does to the VALUE of a CASE column: rows an earlier branch already answers keep their value; of the
    others, those satisfying the new condition get v; the rest keep ELSE / NULL. -/
theorem C17_when_extends (c : CaseObj) (b : Branch) (x : Option Int) :
    (addBranch c b).eval x = if c.ifs.any (·.holds x) then c.eval x else if b.holds x then some b.v else c.dflt := by
  simp only [addBranch, CaseObj.eval, List.find?_append]
  cases hf : c.ifs.find? (·.holds x) with
  | some b' =>
    have : c.ifs.any (·.holds x) = true := by
      rw [List.any_eq_true]
      exact ⟨b', List.mem_of_find?_eq_some hf, by simpa using List.find?_some hf⟩
    simp [this]
  | none =>
    have : c.ifs.any (·.holds x) = false := by
      rw [List.find?_eq_none] at hf
      simpa [List.any_eq_false] using hf
    simp only [this, Option.none_or, List.find?_cons, List.find?_nil]
    cases b.holds x <;> simp

/-- `.otherwise(v)` answers exactly the rows no branch answers -/
theorem C17_otherwise_fills (c : CaseObj) (v : Int) (x : Option Int) (h : c.dflt = none) :
    (setDefault c v).eval x = (c.eval x).or (some v) := by
  simp only [setDefault, CaseObj.eval]
  cases c.ifs.find? (·.holds x) <;> simp [h]

/-- counterexample for the copy discipline: were `Column.when` to extend the receiver's own CASE (flag false), the kept
    prefix `base = when(x > 0, 1)` and `base.otherwise(9)` would both answer -1 on negative rows after
    `base.when(x < 0, -1)` was derived. -/
theorem C17_cex_whenShares :
    let prog := [Step.start ⟨.gt, 0, 1⟩, .when 0 ⟨.lt, 0, -1⟩, .otherwise 0 9]
    evalAll (hrunWith false true prog).view [some (-5)] = [[some (-1)], [some (-1)], [some (-1)]] ∧
    evalAll (prun prog) [some (-5)] = [[none], [some (-1)], [some 9]] := by decide

/-- none of the PySpark Column API methods writes into the receiver's expression tree (generated survey of column.py) -/
theorem C17_column_api_pure : columnApi.all (fun m => !columnSelfWriters.contains m) = true := by decide

example : (hrun [.start ⟨.gt, 0, 1⟩, .when 0 ⟨.lt, 0, -1⟩, .otherwise 0 9, .un 0 .neg]).view.length = 4 := by decide

-- dispatch ----------------------------------------------------------------------------------------------

/-- Every DuckDB row of the generated dispatch table is unsupported, a modelled emulation dispatched to the
    alternative the model is about, or one of the listed unmodelled emulations; the modelled default-body
    emulations have no DuckDB branch. -/
theorem C17_dispatch :
    dispatch.all duckRowOk = true ∧
    (modelled.map (·.1)).all (fun f => modelled.any (fun m => m.1 == f && implOf f "duckdb" == some m.2)) = true ∧
    modelledDefault.all (fun f => implOf f "duckdb" == none) = true ∧
    duckSoundexIsUtilSoundex = true := by decide +kernel

-- non-vacuity -------------------------------------------------------------------------------------------

example : emulElementAt [10, 20, 30] (-1) = some 30 ∧ sparkElementAt [10, 20, 30] (-1) = some 30 := by decide
example : emulGetItem [10, 20, 30] 0 = some 10 := by decide
example : emulSliceWith (-1) [10, 20, 30, 40, 50] 2 2 = [20, 30] := by decide
example : H_sequenceDefaultStep 1 5 none ∧ emulSequence 1 5 none = [1, 2, 3, 4, 5] := by decide
example : H_sliceNegativeStart 5 (-2) 2 ∨ sliceEndOffset ≠ -1 := by decide
example : emulSliceWith (-1) [10, 20, 30, 40, 50] (-2) 2 = [40, 50] := by decide
example : H_sequenceDefaultStep 9 1 (some (-3)) ∧ emulSequence 9 1 (some (-3)) = [9, 6, 3] := by decide
example : H_rintTies 7 3 ∧ emulRint 7 3 = 2 := by decide
example : H_rintTies (-9) 4 ∧ emulRint (-9) 4 = -2 := by decide
example : emulOverlay "hello world".toList "XY".toList 3 none = "heXYo world".toList := by decide
example : emulOverlay "hello world".toList "XY".toList 3 (some 4) = "heXYworld".toList := by decide
example : H_arrayPositionNullArray (some [3, 1, 2]) ∧ emulArrayPosition (some [3, 1, 2]) 2 = some 3 := by decide
example : emulDateAdd 100 (-7) = 93 ∧ emulDateSub 100 (-7) = 107 := by decide
example : emulFactorial 20 = some 2432902008176640000 := by decide
example : implOf "slice" "duckdb" = some "slice_as_list_slice" := by decide +kernel
/-- `H_sliceEnd` is satisfiable by a one-token edit of the source (the offset is a generated value) -/
example : ∃ o : Int, o = -1 ∧ emulSliceWith o [1, 2, 3] 1 2 = sparkSlice [1, 2, 3] 1 2 := ⟨-1, rfl, by decide⟩

example : emulLevenshtein (some 3) (some 3) = some 3 ∧ emulLevenshtein (some 3) (some 2) = some (-1) ∧ emulLevenshtein (some 0) (some 0) = some 0 := by decide
example : H_levenshteinNullInput (some 3) (some 3) := by decide
example : duckLevenshtein "kitten".toList "sitting".toList = 3 ∧ duckLevenshtein "flaw".toList "lawn".toList = 2 := by decide
example : emulFormatValues ["".toList, "".toList, "".toList] ["ab".toList, "cd".toList] = some "abcd".toList := by decide
example : emulNanvl (fun (x : Int) => x == 0) (some 0) (some 7) = some 7 ∧ emulNanvl (fun (x : Int) => x == 0) (some 5) (some 7) = some 5 := by decide
example : emulDayOfWeek 738916 = 4 := by decide
example : evalAll (hrun [.start ⟨.gt, 0, 1⟩, .when 0 ⟨.lt, 0, -1⟩, .otherwise 0 9]).view [some 5, some (-5), some 0, none] =
    [[some 1, none, none, none], [some 1, some (-1), none, none], [some 1, some 9, some 9, some 9]] := by decide

/-- C17 at full strength, for the part this technique can state: every modelled emulation returns Spark's
    value on its whole ordinary domain.  (The values of engine-native pass-through functions are not part of
    this statement: sqlframe contributes only a name there; they are compared with recorded Spark values by
    the check and reported as unclaimed observations.) -/
def C17_full_statement : Prop :=
  (∀ n : Nat, n ≤ 20 → emulFactorial n = sparkFactorial n) ∧
  (∀ xs k, k ≠ 0 → emulElementAt xs k = sparkElementAt xs k) ∧
  (∀ xs k, 0 ≤ k → emulGetItem xs k = sparkGetItem xs k) ∧
  (∀ xs s l, s ≠ 0 → 0 ≤ l → emulSlice xs s l = sparkSlice xs s l) ∧
  (∀ xs v, emulArrayPosition xs v = sparkArrayPosition xs v) ∧
  (∀ a b step, emulSequence a b step = sparkSequence a b step) ∧
  (∀ n d, 0 < d → emulRint n d = sparkRint n d) ∧
  (∀ s r pos len, 1 ≤ pos → 0 ≤ len.getD r.length → emulOverlay s r pos len = sparkOverlay s r pos len) ∧
  (∀ d n, emulDateAdd d n = sparkDateAdd d n ∧ emulDateSub d n = sparkDateSub d n) ∧
  (∀ d t, emulLevenshtein d t = sparkLevenshtein d t) ∧
  (∀ fmt cols, (sparkFormat fmt cols).isSome → emulFormat fmt cols = sparkFormat fmt cols) ∧
  (∀ (nan : Int → Bool) c1 c2, emulNanvl nan c1 c2 = sparkNanvl nan c1 c2) ∧
  (∀ o, emulDayOfWeek o = sparkDayOfWeek o) ∧
  (∀ prog, (hrun prog).view = prun prog)

/-- what is proved of it: everything except the hypotheses' complements -/
theorem C17_partial :
    (∀ n : Nat, n ≤ 20 → emulFactorial n = sparkFactorial n) ∧
    (∀ xs k, k ≠ 0 → emulElementAt xs k = sparkElementAt xs k) ∧
    (∀ xs k, 0 ≤ k → emulGetItem xs k = sparkGetItem xs k) ∧
    (H_sliceEnd → ∀ xs s l, s ≠ 0 → 0 ≤ l → H_sliceNegativeStart xs.length s l → emulSlice xs s l = sparkSlice xs s l) ∧
    (∀ xs v, H_arrayPositionNullArray xs → emulArrayPosition xs v = sparkArrayPosition xs v) ∧
    (∀ a b step, H_sequenceDefaultStep a b step → emulSequence a b step = sparkSequence a b step) ∧
    (∀ n d, H_rintTies n d → emulRint n d = sparkRint n d) ∧
    (∀ s r pos len, 1 ≤ pos → 0 ≤ len.getD r.length → emulOverlay s r pos len = sparkOverlay s r pos len) ∧
    (∀ d n, emulDateAdd d n = sparkDateAdd d n ∧ emulDateSub d n = sparkDateSub d n) ∧
    (∀ d t, H_levenshteinNullInput d t → emulLevenshtein d t = sparkLevenshtein d t) ∧
    (∀ fmt cols, H_formatPlainPlaceholders fmt cols → emulFormat fmt cols = sparkFormat fmt cols) ∧
    (∀ (nan : Int → Bool) c1 c2, H_nanvlNullInput c1 → emulNanvl nan c1 c2 = sparkNanvl nan c1 c2) ∧
    (∀ o, emulDayOfWeek o = sparkDayOfWeek o) ∧
    (∀ prog, (hrun prog).view = prun prog) :=
  ⟨C17_factorial_duck, C17_element_at, C17_getItem, fun h xs s l => C17_slice_partial h xs s l,
   fun xs v h => C17_array_position_partial xs v h, C17_sequence_partial, C17_rint_partial, C17_overlay, C17_date_add,
   C17_levenshtein_partial, C17_format_string_partial, fun nan c1 c2 h => C17_nanvl_partial nan c1 c2 h,
   fun o => (C17_dayofweek o).1, C17_when_chain_pure⟩

end Sqlframe
