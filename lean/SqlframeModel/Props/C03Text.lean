/-
Props/C03Text.lean — what the *unoptimized* statement of a single-input DataFrame means.

`DF.hist` records, in `Impl/DataFrame.lean`, every CTE the operations freeze (`_convert_leaf_to_cte`, and the
UNION `unpivot` builds).  The statement `df.sql(optimize=False)` is that linear chain
    WITH c₁ AS (… FROM input), c₂ AS (… FROM c₁), …  <open block> FROM cₙ
This file gives the chain its SQL meaning (`stmtEval`: evaluate the CTEs in order, each over the one before) and
proves that it always equals the value of the DataFrame model (`C03_text_eval`), hence — with `C01_partial` —
PySpark's sequential meaning of the program (`C03_text_meaning`).

The tie to the code is the *shape* stream of tools/props/c03.py: the chain parsed back from the real statement
(number of CTEs, and per block: select names, presence of WHERE / DISTINCT, ORDER BY keys, LIMIT, UNION) must equal
`shapeOf` of the model's `hist` and open block, program by program.
-/
import SqlframeModel.Props.C01
import SqlframeModel.Props.C03
namespace Sqlframe
open Gen

def CteBody.eval : CteBody → Table → Table
  | .block b, T => evalBlock b T
  | .unpivot ids vals var val dis, T =>
      let U := unpivotTable T ids vals var val
      if dis then { U with rows := dedup U.rows } else U

/-- the value of the last CTE of a chain over input `T0` -/
def chainEval (T0 : Table) (h : List CteBody) : Table := h.foldl (fun T c => c.eval T) T0

/-- the statement: the frozen CTEs, then the open block reading the last of them -/
def stmtEval (T0 : Table) (d : DF) : Table := evalBlock d.blk (chainEval T0 d.hist)

/-- `src` is what the chain recorded so far evaluates to -/
def SrcInv (T0 : Table) (d : DF) : Prop := d.src = chainEval T0 d.hist

theorem chainEval_snoc (T0 : Table) (h : List CteBody) (c : CteBody) :
    chainEval T0 (h ++ [c]) = c.eval (chainEval T0 h) := by
  simp [chainEval, List.foldl_append]

theorem srcInv_init (T : Table) : SrcInv T (DF.init T) := by
  simp [SrcInv, DF.init, chainEval]

theorem srcInv_wrap (T0 : Table) (d : DF) (h : SrcInv T0 d) : SrcInv T0 d.wrap := by
  unfold SrcInv at *
  simp only [DF.wrap, chainEval_snoc, CteBody.eval, DF.eval, h]

/-- a body that leaves `src` and `hist` alone keeps the invariant -/
def KeepsChain (body : DF → DF) : Prop := ∀ d, (body d).src = d.src ∧ (body d).hist = d.hist

theorem srcInv_of_keeps {body : DF → DF} (hb : KeepsChain body) (T0 : Table) (d : DF) (h : SrcInv T0 d) :
    SrcInv T0 (body d) := by
  unfold SrcInv at *
  rw [(hb d).1, (hb d).2, h]

/-- the decorator preserves the invariant whenever the body does -/
theorem srcInv_wrapper (T0 : Table) (tag : Option Op) (body : DF → DF)
    (hb : ∀ d, SrcInv T0 d → SrcInv T0 (body d)) (d : DF) (h : SrcInv T0 d) :
    SrcInv T0 (wrapper tag body d) := by
  cases tag with
  | none => exact hb d h
  | some op =>
    simp only [wrapper]
    have setLast : ∀ (x : DF) (l : Op), SrcInv T0 x → SrcInv T0 { x with last := l } := fun x l hx => hx
    have h1 : SrcInv T0 (if initCond d.last then { d.wrap with last := initReset } else d) := by
      split
      · exact setLast _ _ (srcInv_wrap T0 d h)
      · exact h
    generalize (if initCond d.last then { d.wrap with last := initReset } else d) = d1 at h1
    have h2 : SrcInv T0 (if wrapCond d1.last (newOp op d1.last) then d1.wrap else d1) := by
      split
      · exact srcInv_wrap T0 d1 h1
      · exact h1
    exact setLast _ _ (hb _ h2)

theorem keeps_where (p : Expr) : KeepsChain (bodyWhere p) := fun _ => ⟨rfl, rfl⟩
theorem keeps_select (items : List (Name × Expr)) : KeepsChain (bodySelect items) := fun _ => ⟨rfl, rfl⟩
theorem keeps_selectNoAppend (a : Bool) (items : List (Name × Expr)) : KeepsChain (bodySelectNoAppend a items) := fun _ => ⟨rfl, rfl⟩
theorem keeps_distinct : KeepsChain bodyDistinct := fun _ => ⟨rfl, rfl⟩
theorem keeps_orderBy (keys : List OrdKey) : KeepsChain (bodyOrderBy keys) := fun _ => ⟨rfl, rfl⟩
theorem keeps_limit (n : Nat) : KeepsChain (bodyLimit n) := fun _ => ⟨rfl, rfl⟩

/-- every public method keeps `src` equal to the value of the recorded chain -/
theorem srcInv_apply (T0 : Table) (d : DF) (s : Step) (h : SrcInv T0 d) : SrcInv T0 (d.apply s) := by
  cases s with
  | wher p => exact srcInv_wrapper T0 _ _ (fun d hd => srcInv_of_keeps (keeps_where p) T0 d hd) d h
  | select items => exact srcInv_wrapper T0 _ _ (fun d hd => srcInv_of_keeps (keeps_select items) T0 d hd) d h
  | withColumn n e =>
    exact srcInv_wrapper T0 _ _ (fun d hd => srcInv_of_keeps (keeps_select _) T0 d hd) d h
  | withColumnRenamed a b =>
    exact srcInv_wrapper T0 _ _ (fun d hd => srcInv_of_keeps (keeps_select _) T0 d hd) d h
  | drop ns =>
    exact srcInv_wrapper T0 _ _ (fun d hd =>
      srcInv_wrapper T0 _ _ (fun d' hd' => srcInv_of_keeps (keeps_selectNoAppend _ _) T0 d' hd') d hd) d h
  | distinct => exact srcInv_wrapper T0 _ _ (fun d hd => srcInv_of_keeps keeps_distinct T0 d hd) d h
  | orderBy keys => exact srcInv_wrapper T0 _ _ (fun d hd => srcInv_of_keeps (keeps_orderBy keys) T0 d hd) d h
  | limit n => exact srcInv_wrapper T0 _ _ (fun d hd => srcInv_of_keeps (keeps_limit n) T0 d hd) d h
  | fillna v sub =>
    exact srcInv_wrapper T0 _ _ (fun d hd =>
      srcInv_wrapper T0 _ _ (fun d' hd' => srcInv_of_keeps (keeps_select _) T0 d' hd') d hd) d h
  | replace pairs sub =>
    exact srcInv_wrapper T0 _ _ (fun d hd =>
      srcInv_wrapper T0 _ _ (fun d' hd' => srcInv_of_keeps (keeps_select _) T0 d' hd') d hd) d h
  | toDF names =>
    exact srcInv_wrapper T0 _ (fun d => { d with blk := { d.blk with sel := toDFItems d.blk.sel names } }) (fun _ hd => hd) d h
  | dropna howAll thresh sub =>
    refine srcInv_wrapper T0 _ _ (fun d hd => ?_) d h
    exact srcInv_wrapper T0 _ _ (fun d' hd' => srcInv_of_keeps (keeps_select _) T0 d' hd') _
      (srcInv_wrapper T0 _ _ (fun d' hd' => srcInv_of_keeps (keeps_where _) T0 d' hd') _
        (srcInv_wrapper T0 _ _ (fun d' hd' => srcInv_of_keeps (keeps_selectNoAppend _ _) T0 d' hd') d hd))
  | unpivot ids vals var val =>
    refine srcInv_wrapper T0 _ _ (fun d hd => ?_) d h
    unfold SrcInv at *
    have e : d.hist ++ [CteBody.block d.blk, CteBody.unpivot ids vals var val unpivotDistinct]
        = (d.hist ++ [CteBody.block d.blk]) ++ [CteBody.unpivot ids vals var val unpivotDistinct] := by simp
    simp only [e, chainEval_snoc, CteBody.eval, DF.eval, hd]

theorem srcInv_run (T0 : Table) (steps : List Step) : ∀ d, SrcInv T0 d → SrcInv T0 (d.run steps) := by
  induction steps with
  | nil => intro d h; exact h
  | cons s ss ih => intro d h; exact ih _ (srcInv_apply T0 d s h)

/-- **the unoptimized statement evaluates to the value of the DataFrame model**, for every chain of the thirteen
    step kinds over every input table — no well-formedness hypothesis is needed for this half. -/
theorem C03_text_eval (T : Table) (steps : List Step) :
    stmtEval T ((DF.init T).run steps) = ((DF.init T).run steps).eval := by
  have h := srcInv_run T steps (DF.init T) (srcInv_init T)
  unfold stmtEval DF.eval
  rw [← h]

/-- **… and therefore to PySpark's sequential meaning of the program** (under `C01_partial`'s hypotheses) -/
theorem C03_text_meaning (T : Table) (steps : List Step) (hT : T.WF) (hs : StepsWF T steps)
    (hsc : noAdjacentOrderBy steps = true) (hin : steps.all Step.inTheorem = true) :
    stmtEval T ((DF.init T).run steps) = specRun T steps := by
  rw [C03_text_eval]; exact C01_partial T steps hT hs hsc hin

end Sqlframe
