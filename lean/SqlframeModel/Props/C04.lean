/-
Props/C04.lean — DataFrames are immutable; transformations are pure and lazy (object-level model).
-/
import SqlframeModel.Impl.C04
namespace Sqlframe
open Gen

/-- the regenerated decisions that make the frame property hold -/
theorem C04_gen_obligations :
    display_select ≠ .onSelf ∧ display_agg ≠ .onSelf ∧ display_withColumns ≠ .onSelf ∧
    display_withColumnRenamed ≠ .onSelf ∧ normalizeColsCopies = true ∧ normalizeColCopies = true ∧
    copyIsFresh = true ∧ groupKeepsCopy = true ∧ constructorsOwnTheirState = true ∧ addCtesOwnsExpression = true := by decide

theorem namer_target_ne (n : Namer) : n.target ≠ .onSelf := by
  cases n <;> simp [Namer.target] <;> decide

/-- **frame**: one public call leaves every pre-existing DataFrame object and every Column handle exactly
    as it was (hence everything it reports: columns, schema, SQL, rows). -/
theorem C04_frame (h : Heap) (c : Call) :
    (exec h c).objs.take h.objs.length = h.objs ∧ (exec h c).handles.take h.handles.length = h.handles := by
  cases c with
  | transform r s namer names hs =>
    simp only [exec]
    cases h.objs[r]? with
    | none => simp
    | some o =>
      have hn : (namer.target = .onSelf) = False := by simpa using namer_target_ne namer
      have hc : (normalizeColsCopies && normalizeColCopies) = true := by decide
      simp [hn, hc]
  | action r k => simp [exec]
  | getItem r n => simp [exec]

/-- an existing object, looked up by identity, is unchanged by a call -/
theorem C04_frame_get (h : Heap) (c : Call) (i : Nat) (hi : i < h.objs.length) :
    (exec h c).objs[i]? = h.objs[i]? := by
  have := (C04_frame h c).1
  have h2 : ((exec h c).objs.take h.objs.length)[i]? = h.objs[i]? := by rw [this]
  rw [List.getElem?_take] at h2
  simpa [hi] using h2

/-- **history**: after any sequence of calls on any receivers, in any interleaving, every object that
    existed before still reports what it reported. -/
theorem C04_history (cs : List Call) : ∀ (h : Heap) (i : Nat), i < h.objs.length →
    ((runCalls h cs).objs[i]?).map observe = (h.objs[i]?).map observe := by
  induction cs with
  | nil => intro h i _; rfl
  | cons c cs ih =>
    intro h i hi
    simp only [runCalls, List.foldl_cons]
    have hlen : h.objs.length ≤ (exec h c).objs.length := by
      have := congrArg List.length (C04_frame h c).1
      simp only [List.length_take] at this
      omega
    have := ih (exec h c) i (by omega)
    simp only [runCalls] at this
    rw [this, C04_frame_get h c i hi]

/-- **history, object level**: not only what an existing object reports but the object itself — including the
    `last_op` its next operation starts from and its open block — is what it was. -/
theorem C04_history_obj (cs : List Call) : ∀ (h : Heap) (i : Nat), i < h.objs.length →
    (runCalls h cs).objs[i]? = h.objs[i]? := by
  induction cs with
  | nil => intro h i _; rfl
  | cons c cs ih =>
    intro h i hi
    simp only [runCalls, List.foldl_cons]
    have hlen : h.objs.length ≤ (exec h c).objs.length := by
      have := congrArg List.length (C04_frame h c).1
      simp only [List.length_take] at this
      omega
    have := ih (exec h c) i (by omega)
    simp only [runCalls] at this
    rw [this, C04_frame_get h c i hi]

/-- the object a transformation creates is a function of the receiver object and the arguments alone -/
theorem exec_transform_last (h : Heap) (r : Nat) (s : Step) (namer : Namer) (names : List (Name × String)) (hs : List Nat)
    (o : Obj) (ho : h.objs[r]? = some o) :
    (exec h (.transform r s namer names hs)).objs.getLast? = some { df := o.df.apply s, display := updDisplay o.display names } := by
  simp [exec, ho]

/-- **purity over time**: the same call on the same receiver builds the same DataFrame again, whatever other calls
    (on any receivers, in any interleaving) happened in between -/
theorem C04_pure (h : Heap) (cs : List Call) (r : Nat) (s : Step) (namer : Namer) (names : List (Name × String)) (hs : List Nat)
    (hr : r < h.objs.length) :
    (exec (runCalls (exec h (.transform r s namer names hs)) cs) (.transform r s namer names hs)).objs.getLast?
      = (exec h (.transform r s namer names hs)).objs.getLast? := by
  obtain ⟨o, ho⟩ : ∃ o, h.objs[r]? = some o := ⟨h.objs[r], by simp [hr]⟩
  have h1 : (exec h (.transform r s namer names hs)).objs[r]? = some o := by
    rw [C04_frame_get h _ r hr]; exact ho
  have hlen : r < (exec h (.transform r s namer names hs)).objs.length := by
    have := congrArg List.length (C04_frame h (.transform r s namer names hs)).1
    simp only [List.length_take] at this
    omega
  have h2 : (runCalls (exec h (.transform r s namer names hs)) cs).objs[r]? = some o := by
    rw [C04_history_obj cs _ r hlen]; exact h1
  rw [exec_transform_last _ r s namer names hs o h2, exec_transform_last h r s namer names hs o ho]

/-- handles are never rewritten: a Column handle means the same before and after being passed to a method -/
theorem C04_handles (cs : List Call) : ∀ (h : Heap) (i : Nat), i < h.handles.length →
    (runCalls h cs).handles[i]? = h.handles[i]? := by
  induction cs with
  | nil => intro h i _; rfl
  | cons c cs ih =>
    intro h i hi
    simp only [runCalls, List.foldl_cons]
    have hf := (C04_frame h c).2
    have hlen : h.handles.length ≤ (exec h c).handles.length := by
      have := congrArg List.length hf
      simp only [List.length_take] at this
      omega
    have := ih (exec h c) i (by omega)
    simp only [runCalls] at this
    rw [this]
    have h2 : ((exec h c).handles.take h.handles.length)[i]? = h.handles[i]? := by rw [hf]
    rw [List.getElem?_take] at h2
    simpa [hi] using h2

/-- **lazy**: transformations and handle creation send nothing to the engine -/
theorem C04_lazy (h : Heap) (c : Call) (hc : ∀ r k, c ≠ .action r k) : (exec h c).engineCalls = h.engineCalls := by
  cases c with
  | transform r s namer names hs => simp only [exec]; cases h.objs[r]? <;> rfl
  | action r k => exact absurd rfl (hc r k)
  | getItem r n => rfl

/-- **lazy, against the source's call graph**: no public transformation can reach the engine
    (static over-approximation of `self.<method>` calls, regenerated from dataframe.py). -/
theorem C04_lazy_static : ∀ m ∈ transformations, lookupReach m = some false := by decide

/-- actions are exactly the members that can reach the engine -/
theorem C04_actions_static :
    (reachesEngine.filter (·.2)).map (·.1) =
      ["approxQuantile", "collect", "corr", "count", "cov", "explain", "first", "head", "isEmpty", "printSchema",
       "schema", "show", "toArrow", "toPandas"] := by decide

/-- repeating an action observes the same object: the answer is a function of an unchanged object -/
theorem C04_action_repeatable (h : Heap) (r k1 k2 : Nat) :
    ((exec (exec h (.action r k1)) (.action r k2)).objs[r]?).map observe = (h.objs[r]?).map observe := by
  simp [exec]

/-! ### non-vacuity -/
def exT : Table := { cols := ["x", "y"], rows := [[.int 1, .null], [.null, .int 3], [.int 2, .int 0]] }
def exHeap : Heap :=
  { objs := [{ df := (DF.init exT).apply (.wher (.bin .gt (.col "x") (.lit (.int 0)))), display := [("x", "x"), ("y", "y")] }],
    handles := [{ qual := .branch 0, name := "x" }], engineCalls := 0 }

example : (exHeap.objs[0]?).map (fun o => bodySeesReceiver (Step.select [("x", .col "x")]).tag o.df) = some true := by decide
example : ((runCalls exHeap [.transform 0 (.select [("x", .col "x")]) .select [("x", "X")] [0], .action 0 1]).objs[0]?).map observe
    = (exHeap.objs[0]?).map observe := by decide
example : (runCalls exHeap [.transform 0 (.select [("x", .col "x")]) .select [("x", "X")] [0]]).objs.length = 2 := by decide

/-- full statement: additionally no aliasing inside sqlglot expression trees, `df.schema`/`sql()` text
    and engine rows of the *real* objects — compared by the harness' deep snapshots, not proved. -/
def C04_full_statement : Prop :=
  ∀ (h : Heap) (cs : List Call) (i : Nat), i < h.objs.length →
    ((runCalls h cs).objs[i]?).map observe = (h.objs[i]?).map observe

end Sqlframe
