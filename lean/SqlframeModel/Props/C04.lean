/-
Props/C04.lean — DataFrames are immutable; transformations are pure and lazy (object-level model).
-/
import SqlframeModel.Impl.C04
namespace Sqlframe
open Gen

/-- the regenerated decisions that make the frame property hold -/
theorem C04_gen_obligations :
    display_select ≠ .onSelf ∧ display_agg ≠ .onSelf ∧ display_withColumns ≠ .onSelf ∧
    display_withColumnRenamed ≠ .onSelf ∧ normalizeColsCopies = true ∧ normalizeColCopies = true ∧
    copyIsFresh = true ∧ groupKeepsCopy = true ∧ constructorsOwnTheirState = true ∧ addCtesOwnsExpression = true := by decide

/-- the regenerated decisions about pending hints and `limit`: `_resolve_pending_hints` walks, empties and decorates its
    working copy and returns it; `_hint` appends to the copy it returns; `limit` returns a copy built by a copying builder;
    `alias` walks the copy's join hints -/
theorem C04_hint_obligations :
    resolveIterates = .onCopy ∧ resolveRemovesFrom = .onCopy ∧ resolveAttachesTo = .onCopy ∧ resolveReturns = .onCopy ∧
    resolveJoinIterates = .onCopy ∧ hintAppendsTo = .onCopy ∧ limitResultOnCopy = true ∧ limitBuilderCopies = true ∧
    aliasRepointsHintsOf = .onCopy := by decide

theorem namer_target_ne (n : Namer) : n.target ≠ .onSelf := by
  cases n <;> simp [Namer.target] <;> decide

theorem setAt_self {α} (l : List α) (r : Nat) (o : α) (h : l[r]? = some o) : setAt l r o = l := by
  unfold setAt
  apply List.ext_getElem?
  intro i
  rw [List.getElem?_set]
  split
  · next hi =>
    subst hi
    split
    · exact h.symm
    · next hlt => simp [List.getElem?_eq_none (Nat.le_of_not_lt hlt)]
  · rfl

/-- **`_resolve_pending_hints` leaves the DataFrame it is called on as it is** (it walks, empties and decorates its copy) -/
theorem C04_resolve_frame (o : Obj) : (resolveHints o).recv = o := by
  unfold resolveHints
  split
  · rfl
  · have h1 : resolveRemovesFrom = Target.onCopy := by decide
    have h2 : resolveAttachesTo = Target.onCopy := by decide
    simp [h1, h2]

theorem take_append_one {α} (l : List α) (x : α) : (l ++ [x]).take l.length = l := by simp

theorem execTransform_objs (h : Heap) (r : Nat) (s : Step) (namer : Namer) (names : List (Name × String)) (hs : List Nat) :
    (execTransform h r s namer names hs).objs.take h.objs.length = h.objs ∧
    (execTransform h r s namer names hs).handles = h.handles ∧
    (execTransform h r s namer names hs).cells = h.cells ∧
    (execTransform h r s namer names hs).engineCalls = h.engineCalls := by
  unfold execTransform
  cases hr : h.objs[r]? with
  | none => simp
  | some o =>
    have hn : (namer.target = DisplayTarget.onSelf) = False := by simpa using namer_target_ne namer
    have hc : (normalizeColsCopies && normalizeColCopies) = true := by decide
    simp only [C04_resolve_frame, hn, hc, ite_self, decide_false, Bool.false_and, Bool.false_eq_true, ↓reduceIte]
    rw [setAt_self _ _ _ hr]
    simp

/-- **frame**: one public call leaves every pre-existing DataFrame object — value state, `last_op`, display names, pending
    hints, hint clauses — and every Column handle exactly as it was (hence everything it reports: columns, schema, SQL, rows). -/
theorem C04_frame (h : Heap) (c : Call) :
    (exec h c).objs.take h.objs.length = h.objs ∧ (exec h c).handles.take h.handles.length = h.handles := by
  cases c with
  | transform r s namer names hs =>
    have := execTransform_objs h r s namer names hs
    simp only [exec]
    exact ⟨this.1, by rw [this.2.1]; simp⟩
  | action r k via =>
    cases via with
    | direct =>
      simp only [exec]
      cases hr : h.objs[r]? with
      | none => simp
      | some o => simp [C04_resolve_frame, setAt_self _ _ _ hr]
    | none => simp [exec]
    | step s =>
      have := execTransform_objs h r s .none [] []
      simp only [exec]
      refine ⟨?_, by rw [this.2.1]; simp⟩
      rw [List.take_take, Nat.min_self]
      exact this.1
  | getItem r n => simp [exec]
  | hint r m x =>
    simp only [exec]
    cases hr : h.objs[r]? with
    | none => simp
    | some o =>
      have ha : hintAppendsTo = Target.onCopy := by decide
      simp [C04_resolve_frame, ha, setAt_self _ _ _ hr]
  | render r =>
    simp only [exec]
    cases hr : h.objs[r]? with
    | none => simp
    | some o => simp [C04_resolve_frame, setAt_self _ _ _ hr]
  | alias r =>
    simp only [exec]
    cases hr : h.objs[r]? with
    | none => simp
    | some o => simp [C04_resolve_frame, setAt_self _ _ _ hr]

/-- an existing object, looked up by identity, is unchanged by a call -/
theorem C04_frame_get (h : Heap) (c : Call) (i : Nat) (hi : i < h.objs.length) :
    (exec h c).objs[i]? = h.objs[i]? := by
  have := (C04_frame h c).1
  have h2 : ((exec h c).objs.take h.objs.length)[i]? = h.objs[i]? := by rw [this]
  rw [List.getElem?_take] at h2
  simpa [hi] using h2

theorem exec_objs_len (h : Heap) (c : Call) : h.objs.length ≤ (exec h c).objs.length := by
  have := congrArg List.length (C04_frame h c).1
  simp only [List.length_take] at this
  omega

/-- **history, object level**: after any sequence of calls on any receivers, in any interleaving, every object that existed
    before is what it was — including the `last_op` its next operation starts from, its open block and its pending hints. -/
theorem C04_history_obj (cs : List Call) : ∀ (h : Heap) (i : Nat), i < h.objs.length →
    (runCalls h cs).objs[i]? = h.objs[i]? := by
  induction cs with
  | nil => intro h i _; rfl
  | cons c cs ih =>
    intro h i hi
    simp only [runCalls, List.foldl_cons]
    have hlen := exec_objs_len h c
    have := ih (exec h c) i (by omega)
    simp only [runCalls] at this
    rw [this, C04_frame_get h c i hi]

/-- **history**: … and therefore reports what it reported: rows, column names as spelled, and the hint comments of its
    statement (a hinted DataFrame names its hint every time, whatever was rendered, collected or derived in between). -/
theorem C04_history (cs : List Call) (h : Heap) (i : Nat) (hi : i < h.objs.length) :
    ((runCalls h cs).objs[i]?).map observe = (h.objs[i]?).map observe := by
  rw [C04_history_obj cs h i hi]

/-- the object a transformation creates is a function of the receiver object and the arguments alone -/
theorem exec_transform_last (h : Heap) (r : Nat) (s : Step) (namer : Namer) (names : List (Name × String)) (hs : List Nat)
    (o : Obj) (ho : h.objs[r]? = some o) :
    (exec h (.transform r s namer names hs)).objs.getLast? =
      some { df := o.df.apply s, display := updDisplay o.display names,
             pending := (transformHints o s).1, attached := (transformHints o s).2.1,
             frozen := (transformHints o s).2.2, seq := o.seq } := by
  simp [exec, execTransform, ho]

/-- **purity over time**: the same call on the same receiver builds the same DataFrame again, whatever other calls
    (on any receivers, in any interleaving) happened in between -/
theorem C04_pure (h : Heap) (cs : List Call) (r : Nat) (s : Step) (namer : Namer) (names : List (Name × String)) (hs : List Nat)
    (hr : r < h.objs.length) :
    (exec (runCalls (exec h (.transform r s namer names hs)) cs) (.transform r s namer names hs)).objs.getLast?
      = (exec h (.transform r s namer names hs)).objs.getLast? := by
  obtain ⟨o, ho⟩ : ∃ o, h.objs[r]? = some o := ⟨h.objs[r], by simp⟩
  have h1 : (exec h (.transform r s namer names hs)).objs[r]? = some o := by
    rw [C04_frame_get h _ r hr]; exact ho
  have hlen : r < (exec h (.transform r s namer names hs)).objs.length := by
    have := exec_objs_len h (.transform r s namer names hs)
    omega
  have h2 : (runCalls (exec h (.transform r s namer names hs)) cs).objs[r]? = some o := by
    rw [C04_history_obj cs _ r hlen]; exact h1
  rw [exec_transform_last _ r s namer names hs o h2, exec_transform_last h r s namer names hs o ho]

/-- handles are never rewritten: a Column handle means the same before and after being passed to a method -/
theorem C04_handles (cs : List Call) : ∀ (h : Heap) (i : Nat), i < h.handles.length →
    (runCalls h cs).handles[i]? = h.handles[i]? := by
  induction cs with
  | nil => intro h i _; rfl
  | cons c cs ih =>
    intro h i hi
    simp only [runCalls, List.foldl_cons]
    have hf := (C04_frame h c).2
    have hlen : h.handles.length ≤ (exec h c).handles.length := by
      have := congrArg List.length hf
      simp only [List.length_take] at this
      omega
    have := ih (exec h c) i (by omega)
    simp only [runCalls] at this
    rw [this]
    have h2 : ((exec h c).handles.take h.handles.length)[i]? = h.handles[i]? := by rw [hf]
    rw [List.getElem?_take] at h2
    simpa [hi] using h2

/-- **lazy**: transformations, handle creation, hints, aliasing and rendering the SQL send nothing to the engine -/
theorem C04_lazy (h : Heap) (c : Call) (hc : ∀ r k v, c ≠ .action r k v) : (exec h c).engineCalls = h.engineCalls := by
  cases c with
  | transform r s namer names hs => simp only [exec]; exact (execTransform_objs h r s namer names hs).2.2.2
  | action r k v => exact absurd rfl (hc r k v)
  | getItem r n => rfl
  | hint r m x => simp only [exec]; cases h.objs[r]? <;> rfl
  | render r => simp only [exec]; cases h.objs[r]? <;> rfl
  | alias r => simp only [exec]; cases h.objs[r]? <;> rfl

/-- **lazy, against the source's call graph**: no public transformation can reach the engine
    (static over-approximation of `self.<method>` calls, regenerated from dataframe.py). -/
theorem C04_lazy_static : ∀ m ∈ transformations, lookupReach m = some false := by decide

/-- actions are exactly the members that can reach the engine -/
theorem C04_actions_static :
    (reachesEngine.filter (·.2)).map (·.1) =
      ["approxQuantile", "collect", "corr", "count", "cov", "explain", "first", "head", "isEmpty", "printSchema",
       "schema", "show", "toArrow", "toPandas"] := by decide

/-- repeating an action — however it reaches the engine: on the receiver itself, or through a derived `limit(n)` /
    `select(…)` as `show`, `head`, `first`, `isEmpty` do — observes the same object -/
theorem C04_action_repeatable (h : Heap) (r k1 k2 : Nat) (v1 v2 : Via) (hr : r < h.objs.length) :
    ((exec (exec h (.action r k1 v1)) (.action r k2 v2)).objs[r]?).map observe = (h.objs[r]?).map observe := by
  have := C04_history [.action r k1 v1, .action r k2 v2] h r hr
  simpa [runCalls] using this

/-! ### hints -/

theorem partHints_joinHints (l : List Hint) : partHints (joinHints l) = [] := by
  induction l with
  | nil => rfl
  | cons x xs ih =>
    cases hx : x.join <;> simp [partHints, joinHints, hx] <;> simpa [partHints, joinHints] using ih

/-- **a wrap freezes the pending partition hints with the CTE**: the DataFrame derived through `_convert_leaf_to_cte` has no
    partition hint pending any more (so the hint is not rendered a second time on the outer block) … -/
theorem C04_wrap_clears_partition_hints (o : Obj) : partHints (derivedHints o true).1 = [] := by
  unfold derivedHints resolveHints
  have h1 : resolveRemovesFrom = Target.onCopy := by decide
  have h4 : resolveReturns = Target.onCopy := by decide
  by_cases hp : o.pending.isEmpty
  · have : o.pending = [] := by simpa using hp
    simp [this, partHints]
  · simp [hp, h1, h4, partHints_joinHints]

/-- … and every partition hint that was pending is in a hint clause of the statement afterwards (it is not lost) -/
theorem C04_wrap_keeps_partition_hints (o : Obj) (x : Hint) (hx : x ∈ partHints o.pending) :
    ∃ c ∈ (derivedHints o true).2.2, x ∈ c := by
  have hne : o.pending.isEmpty = false := by
    cases hp : o.pending with
    | nil => simp [hp, partHints] at hx
    | cons a as => rfl
  have h2 : resolveAttachesTo = Target.onCopy := by decide
  have h4 : resolveReturns = Target.onCopy := by decide
  refine ⟨o.attached ++ partHints o.pending, ?_, List.mem_append_right _ hx⟩
  have hx' : (o.attached ++ partHints o.pending).isEmpty = false := by
    cases hq : o.attached ++ partHints o.pending with
    | nil => simp at hq; simp [hq.2] at hx
    | cons a as => rfl
  simp [derivedHints, resolveHints, hne, h2, h4, hx']

/-- **a hinted DataFrame reports its hint**: the object `hint(name)` / `repartition(n)` / `coalesce(n)` returns renders the
    partition hint in the hint clause of its open block -/
theorem C04_hint_reported (h : Heap) (r : Nat) (m : HintMethod) (x : Hint) (o : Obj) (ho : h.objs[r]? = some o)
    (hp : x.join = false) :
    ∃ n, (exec h (.hint r m x)).objs.getLast? = some n ∧ { x with cell := h.cells.length } ∈ (resolveHints n).work.attached := by
  have ha : hintAppendsTo = Target.onCopy := by decide
  have h2 : resolveAttachesTo = Target.onCopy := by decide
  have h4 : resolveReturns = Target.onCopy := by decide
  refine ⟨_, by simp [exec, ho, ha]; rfl, ?_⟩
  simp [resolveHints, h2, h4, partHints, List.filter_append, hp]

/-- `limit` is never wrapped except on a freshly created DataFrame: whatever the receiver's last operation, the decorator
    hands the receiver object itself to `limit`'s body — the frame property for `limit`, `show`, `head`, `first` therefore
    rests on the body alone (it returns a copy built by a copying builder: `C04_hint_obligations`) -/
theorem C04_limit_body_sees_receiver (d : DF) (h : d.last ≠ .init) : bodySeesReceiver tag_limit d = true := by
  unfold bodySeesReceiver
  cases hl : d.last <;> first | exact absurd hl h | (simp [tag_limit]; decide)

/-! ### which DataFrame-owned state the source can write (static alias analysis of every member) -/

/-- **the only state owned by a DataFrame passed in (receiver or argument) that any public member of BaseDataFrame can write
    in place is a hint node shared through `copy()`** — no member writes the receiver's expression tree, display map,
    pending-hint list, `last_op`, nor a caller's columns -/
theorem C04_writes_only_hint_nodes :
    ∀ e ∈ receiverWrites, ∀ w ∈ e.2, w = "self.hints" ∨ w = "other.hints" := by decide

/-- the writes to shared hint nodes are in exactly two methods -/
theorem C04_hint_node_write_sites :
    hintNodeWriteSites = (if copySharesHintNodes then ["_resolve_pending_hints", "alias"] else []) := by decide

/-- the helpers that do write their own receiver are the constructor and the display-name recorder (reached on copies only:
    `C04_writes_only_hint_nodes`); the one member that can hand back its receiver is `transform(f)` (when `f` does) -/
theorem C04_self_writing_helpers :
    selfWritingHelpers = ["__init__", "_update_display_name_mapping"] ∧ returnsReceiver = ["transform"] := by decide

/-- every member the model's alphabet stands for is in the analysed table -/
theorem C04_writes_table_covers :
    ∀ m ∈ ["select", "where", "withColumn", "withColumnRenamed", "drop", "distinct", "orderBy", "limit", "fillna", "replace",
           "toDF", "dropna", "unpivot", "hint", "repartition", "coalesce", "alias", "sql", "collect", "count", "show", "head",
           "first", "isEmpty", "toPandas", "toArrow", "schema", "columns"], (lookupWrites m).isSome = true := by decide

/-! ### hint nodes shared between copies (the one write the analysis finds) -/

theorem exec_cells_frame (h : Heap) (c : Call) (H : (copySharesHintNodes && aliasRewritesHintNode) = false ∨ c.isAlias = false) :
    (exec h c).cells.take h.cells.length = h.cells := by
  cases c with
  | transform r s namer names hs => simp only [exec]; rw [(execTransform_objs h r s namer names hs).2.2.1]; simp
  | action r k via =>
    cases via with
    | direct => simp only [exec]; cases h.objs[r]? <;> simp
    | none => simp [exec]
    | step s => simp only [exec]; rw [(execTransform_objs h r s .none [] []).2.2.1]; simp
  | getItem r n => simp [exec]
  | hint r m x => simp only [exec]; cases h.objs[r]? <;> simp
  | render r => simp only [exec]; cases h.objs[r]? <;> simp
  | alias r =>
    cases H with
    | inr hal => simp [Call.isAlias] at hal
    | inl hsh =>
      simp only [exec]
      cases h.objs[r]? with
      | none => simp
      | some o => simp [hsh]

theorem exec_cells_len (h : Heap) (c : Call) (H : (copySharesHintNodes && aliasRewritesHintNode) = false ∨ c.isAlias = false) :
    h.cells.length ≤ (exec h c).cells.length := by
  have := congrArg List.length (exec_cells_frame h c H)
  simp only [List.length_take] at this
  omega

/-- **hint nodes, partial**: under `H_hint_nodes_private` no call history rewrites a hint node that existed before — together
    with `C04_history_obj`: every pre-existing DataFrame's join hints still name what they named -/
theorem C04_hint_nodes_partial (cs : List Call) : ∀ (h : Heap), H_hint_nodes_private cs →
    ∀ i, i < h.cells.length → (runCalls h cs).cells[i]? = h.cells[i]? := by
  induction cs with
  | nil => intro h _ i _; rfl
  | cons c cs ih =>
    intro h H i hi
    have Hc : (copySharesHintNodes && aliasRewritesHintNode) = false ∨ c.isAlias = false := by
      cases H with
      | inl a => exact .inl a
      | inr a => exact .inr (a c (List.mem_cons_self ..))
    have Hcs : H_hint_nodes_private cs := by
      cases H with
      | inl a => exact .inl a
      | inr a => exact .inr (fun c' hc' => a c' (List.mem_cons_of_mem _ hc'))
    simp only [runCalls, List.foldl_cons]
    have hlen := exec_cells_len h c Hc
    have := ih (exec h c) Hcs i (by omega)
    simp only [runCalls] at this
    rw [this]
    have h2 : ((exec h c).cells.take h.cells.length)[i]? = h.cells[i]? := by rw [exec_cells_frame h c Hc]
    rw [List.getElem?_take] at h2
    simpa [hi] using h2

/-! ### non-vacuity -/
def exT : Table := { cols := ["x", "y"], rows := [[.int 1, .null], [.null, .int 3], [.int 2, .int 0]] }
def exHeap : Heap :=
  { objs := [{ df := (DF.init exT).apply (.wher (.bin .gt (.col "x") (.lit (.int 0)))), display := [("x", "x"), ("y", "y")] }],
    handles := [{ qual := .branch 0, name := "x" }], engineCalls := 0 }
/-- `df.where(x > 0).repartition(3)`, and a broadcast hint on top -/
def exHinted : Heap := runCalls exHeap [.hint 0 .repartition { join := false, text := "REPARTITION(3)" }, .hint 1 .hint { join := true, text := "BROADCAST" }]

example : (exHeap.objs[0]?).map (fun o => bodySeesReceiver (Step.select [("x", .col "x")]).tag o.df) = some true := by decide
example : ((runCalls exHeap [.transform 0 (.select [("x", .col "x")]) .select [("x", "X")] [0], .action 0 1 .direct]).objs[0]?).map observe
    = (exHeap.objs[0]?).map observe := by decide
example : (runCalls exHeap [.transform 0 (.select [("x", .col "x")]) .select [("x", "X")] [0]]).objs.length = 2 := by decide
-- the hinted DataFrame names its hint, before and after being rendered, collected, shown and derived from (a wrapping select)
example : (exHinted.objs[1]?).map hintView = some ["REPARTITION(3)"] := by decide
example : ((runCalls exHinted [.render 1, .action 1 0 .direct, .action 1 0 (.step (.limit 2)),
      .transform 1 (.select [("x", .col "x")]) .select [] [], .transform 1 (.wher (.col "x")) .none [] []]).objs[1]?).map hintView
    = some ["REPARTITION(3)"] := by decide
-- the derived, wrapped DataFrame carries the hint inside the CTE and not a second time on the outer block
example : ((runCalls exHinted [.transform 1 (.select [("x", .col "x")]) .select [] [], .transform 3 (.select [("x", .col "x")]) .select [] []]).objs[4]?).map
    (fun o => (hintView o, partHints o.pending)) = some (["REPARTITION(3)"], []) := by decide
example : H_hint_nodes_private [.render 1, .transform 1 (.limit 2) .none [] [], .hint 1 .coalesce { join := false, text := "COALESCE(1)" }] := by decide
example : (exHinted.objs[2]?).map (hintTargets exHinted.cells) = some [true] := by decide

/-- **counterexample (shared hint nodes)**: `a = df.hint("broadcast"); a.alias("t")` re-points the join hint of `a` itself at the
    alias's sequence id — the node is shared with the copy `alias` works on.  (On the real code `a.join(o, "k")` afterwards
    renders `BROADCAST(<raw sequence id>)` instead of the left CTE's name.) -/
theorem C04_cex_shared_hint_nodes :
    (copySharesHintNodes && aliasRewritesHintNode) = true →
    ((runCalls exHinted [.alias 2]).objs[2]?).map (hintTargets (runCalls exHinted [.alias 2]).cells) = some [false] ∧
    (exHinted.objs[2]?).map (hintTargets exHinted.cells) = some [true] ∧ ¬ H_hint_nodes_private [.alias 2] := by decide

/-- the counterexample is live for the source as it is (this `example` is the part that goes away with a repair) -/
example : (copySharesHintNodes && aliasRewritesHintNode) = true ∨ hintNodeWriteSites = [] := by decide

/-- full statement: every pre-existing DataFrame reports what it reported *and* its join hints name what they named;
    additionally no aliasing inside sqlglot expression trees, `df.schema`/`sql()` text and engine rows of the *real*
    objects — compared by the harness' deep snapshots, not proved. -/
def C04_full_statement : Prop :=
  ∀ (h : Heap) (cs : List Call) (i : Nat), i < h.objs.length →
    ((runCalls h cs).objs[i]?).map observe = (h.objs[i]?).map observe ∧
    ((runCalls h cs).objs[i]?).map (hintTargets (runCalls h cs).cells) = (h.objs[i]?).map (hintTargets h.cells)

/-- the full statement under the scope hypothesis, for heaps whose hint nodes all exist (`cell < cells.length`) -/
theorem C04_partial (h : Heap) (cs : List Call) (H : H_hint_nodes_private cs) (i : Nat) (hi : i < h.objs.length)
    (hw : ∀ o, h.objs[i]? = some o → ∀ x ∈ joinHints o.pending, x.cell < h.cells.length) :
    ((runCalls h cs).objs[i]?).map observe = (h.objs[i]?).map observe ∧
    ((runCalls h cs).objs[i]?).map (hintTargets (runCalls h cs).cells) = (h.objs[i]?).map (hintTargets h.cells) := by
  refine ⟨C04_history cs h i hi, ?_⟩
  rw [C04_history_obj cs h i hi]
  cases ho : h.objs[i]? with
  | none => rfl
  | some o =>
    simp only [Option.map_some, Option.some.injEq, hintTargets]
    apply List.map_congr_left
    intro x hx
    rw [C04_hint_nodes_partial cs h H x.cell (hw o ho x hx)]

end Sqlframe
