/-
Props/C08.lean — property theorems for C08 (window specifications and window functions evaluate as in Spark).

Model: Impl/C08Spec.lean (the WindowSpec builders around the regenerated `Gen.Window`, the engine's and
PySpark's reading of a builder chain) over Impl/C08Window.lean (the meaning of a resolved window).
Full statement (`C08_full_statement`) vs what is proved (`C08_partial`, `C08_partial_rowsEdge`): bottom of the file.
-/
import SqlframeModel.Lemmas.C08
import SqlframeModel.Lemmas.C08Chain
namespace Sqlframe
open Sqlframe.Win Sqlframe.Gen.Win Sqlframe.Gen Sqlframe.Gen.WinChain

/-! ### frame boundaries: every integer -/

/-- **For every integer `x`** and both frame kinds: whenever PySpark accepts `x` as a frame *start*
    (python threshold `start <= -(2^63-1) ↦ unboundedPreceding`, then the JVM's mapping
    `0 ↦ CURRENT ROW, Long.MinValue ↦ UNBOUNDED PRECEDING, Long.MaxValue ↦ UNBOUNDED FOLLOWING,
    negative ↦ |x| PRECEDING, positive ↦ x FOLLOWING`), the `<value> <side>` pair the generated
    `get_value_and_side` stores denotes the same boundary — except at the single value
    `x = -(2^63-1)`, where sqlframe may store `9223372036854775807 PRECEDING` for PySpark's UNBOUNDED
    PRECEDING (see `C08_edge_rows`, `C08_cex_rangeEdgeBound`).  As a frame *end* the stored boundary is
    PySpark's, again up to that one value. -/
theorem C08_bound (k : FrameKind) (x : Int) :
    (∀ b, pysparkStart k x = some b →
      boundOf (getValueAndSide x) = some b ∨
      (x = -9223372036854775807 ∧ boundOf (getValueAndSide x) = some (.preceding 9223372036854775807) ∧ b = .unboundedPreceding)) ∧
    (∀ b, pysparkEnd k x = some b →
      boundOf (getValueAndSide x) = some b ∨
      (x = -9223372036854775807 ∧ boundOf (getValueAndSide x) = some .unboundedPreceding ∧ b = .preceding 9223372036854775807)) :=
  ⟨fun b h => bound_start k x b h, fun b h => bound_end k x b h⟩

/-- away from that value the stored boundary is exactly PySpark's, for every other integer -/
theorem C08_bound_exact (k : FrameKind) (x : Int) (hx : x ≠ -9223372036854775807) :
    (∀ b, pysparkStart k x = some b → boundOf (getValueAndSide x) = some b) ∧
    (∀ b, pysparkEnd k x = some b → boundOf (getValueAndSide x) = some b) := by
  constructor
  · intro b h
    rcases bound_start k x b h with h | ⟨h, _⟩
    · exact h
    · exact absurd h hx
  · intro b h
    rcases bound_end k x b h with h | ⟨h, _⟩
    · exact h
    · exact absurd h hx

/-- the sentinels themselves, and everything beyond them, are unbounded; zero is the current row -/
theorem C08_sentinels :
    boundOf (getValueAndSide unboundedPreceding) = some .unboundedPreceding ∧
    boundOf (getValueAndSide unboundedFollowing) = some .unboundedFollowing ∧
    boundOf (getValueAndSide currentRow) = some .currentRow ∧
    (∀ x : Int, x ≤ -9223372036854775808 → boundOf (getValueAndSide x) = some .unboundedPreceding) ∧
    (∀ x : Int, x ≥ 9223372036854775807 → boundOf (getValueAndSide x) = some .unboundedFollowing) := by
  refine ⟨?_, ?_, ?_, fun x h => (gen_bound x).2.1 h, fun x h => (gen_bound x).2.2.2.2.2 h⟩
  · exact (gen_bound _).2.1 (by rw [up_eq]; decide)
  · exact (gen_bound _).2.2.2.2.2 (by rw [uf_eq]; decide)
  · exact (gen_bound _).1 cr_eq

/-- `rowsBetween` stores a ROWS frame and `rangeBetween` a RANGE frame, start in the start slots and
    end in the end slots (the clause the engine reads back) -/
theorem C08_frame_clause (s e : Int) (lo hi : Bound)
    (hl : boundOf (getValueAndSide s) = some lo) (hh : boundOf (getValueAndSide e) = some hi) :
    engineFrame (rowsBetweenFrame s e) = some ⟨.rows, lo, hi⟩ ∧
    engineFrame (rangeBetweenFrame s e) = some ⟨.range, lo, hi⟩ :=
  ⟨engineFrame_rows s e lo hi hl hh, engineFrame_range s e lo hi hl hh⟩

/-- `2^63-1 PRECEDING` (what sqlframe stores for `-sys.maxsize`) and `UNBOUNDED PRECEDING` (what PySpark
    means) start a ROWS frame at the same row, for every row of every partition of at most 2^63-1 rows -/
theorem C08_edge_rows (P : List Row) (p : Nat) (hi : Bound) (hp : p < P.length) (hl : P.length < 2 ^ 63) :
    rowsFrame P p (.preceding 9223372036854775807) hi = rowsFrame P p .unboundedPreceding hi :=
  rowsFrame_edge P p hi hp (by unfold bigK; omega)

/-! ### order keys -/

/-- every key built with `asc()/desc()/asc_nulls_*()/desc_nulls_*()` reaches the engine with an explicit
    null placement, and that placement (read off the generated `Gen.ord_*` table) is Spark's:
    asc ↦ NULLS FIRST, desc ↦ NULLS LAST.  A key that states no ordering — a name, a column, or any other
    expression (`-c`, `c + 1`, `when(…)`) — does so exactly when the generated wrap decision for its
    expression class (`orderByColumnWrap` / `orderByExprWrap`) is "ascending NULLS FIRST". -/
theorem C08_nulls_partial (F : Flags) (k : UKey) (h : k.explicitOk F = true) :
    engineKey (emitKey F k) = sparkKey k ∧ (∃ d nf, (emitKey F k).ordered = some (d, some nf)) := by
  refine ⟨key_agrees F k h, ?_⟩
  obtain ⟨name, form, expr⟩ := k
  simp only [UKey.explicitOk, Bool.or_eq_true, decide_eq_true_eq] at h
  cases form
  case bare =>
    rcases h with h | h
    · exact absurd rfl h
    · exact ⟨false, true, by simp [emitKey, formOrdered, h]⟩
  all_goals
    simp [emitKey, formOrdered, ord_asc, ord_desc, ord_asc_nulls_first, ord_asc_nulls_last, ord_desc_nulls_first, ord_desc_nulls_last]

/-- in the source as it is, *every* order key is in scope: plain columns and expressions alike are wrapped
    (this is the obligation that breaks when the wrap condition stops covering one expression class) -/
theorem C08_all_keys_explicit (k : UKey) : k.explicitOk genFlags = true := by
  have hc : genFlags.colWrap = some (false, some true) := by decide
  have he : genFlags.exprWrap = some (false, some true) := by decide
  obtain ⟨name, form, expr⟩ := k
  cases form <;> cases expr <;> simp [UKey.explicitOk, bareWrapOf, UKey.isExpr, hc, he]

/-! ### builder chains -/

/-- **Frame semantics.**  For every chain of builder calls PySpark accepts, in scope (`H_*`), the clause
    sqlframe emits is accepted by the engine, partitions and orders exactly as Spark's window does, and
    — for every row of every partition of fewer than 2^63 rows — selects exactly Spark's frame.
    (A ROWS frame may start at `-(2^63-1)`; a RANGE frame may not: `C08_cex_rangeEdgeBound`.) -/
theorem C08_frame_sem (ops : List BOp) (w : WinDef) (hs : sparkDef ops = some w)
    (h1 : H_orderKeysExplicit genFlags ops) (h2 : H_buildersOnce genFlags ops) (h3 : H_noRangeEdgeBound ops) :
    ∃ w0, engineDef (emit ops) = some w0 ∧ w0.part = w.part ∧ w0.order = w.order ∧
      ∀ (cols : List Name) (P : List Row) (p : Nat), p < P.length → P.length < 2 ^ 63 →
        frameRows cols w0 P p = frameRows cols w P p := by
  have hinv := chain_inv false genFlags ops {} {} w (inv_empty false)
    (Or.inr (Or.inl rfl)) (Or.inr (Or.inl rfl)) h2.1 h2.2 h1 h3 hs
  obtain ⟨w0, he, hp, ho, hf⟩ := engineDef_of_inv false _ _ hinv
  exact ⟨w0, (he : engineDef (emit ops) = some w0), hp, ho, fun cols P p hp' hl => frameRows_rel cols w0 w P p ho hf hp' (by unfold bigK; omega)⟩

/-- the emitted clause *is* Spark's window when no frame boundary is the edge value -/
theorem C08_def_agrees (ops : List BOp) (w : WinDef) (hs : sparkDef ops = some w)
    (h1 : H_orderKeysExplicit genFlags ops) (h2 : H_buildersOnce genFlags ops) (h3 : H_noEdgeBound ops) :
    engineDef (emit ops) = some w := by
  have hinv := chain_inv true genFlags ops {} {} w (inv_empty true)
    (Or.inr (Or.inl rfl)) (Or.inr (Or.inl rfl)) h2.1 h2.2 h1 h3 hs
  obtain ⟨w0, he, hp, ho, hf⟩ := engineDef_of_inv true _ _ hinv
  show engineDef (emitFrom genFlags {} ops) = some w
  rw [he]
  congr 1
  obtain ⟨p0, o0, f0⟩ := w0
  obtain ⟨p1, o1, f1⟩ := w
  simp only at hp ho hf
  subst hp ho
  cases f0 <;> cases f1 <;> simp only at hf
  · rfl
  · rcases hf with hf | ⟨hf, _⟩
    · rw [hf]
    · cases hf

/-- **C08 (proved part).**  For every input table, every window function of the list below and every
    chain of `partitionBy / orderBy / rowsBetween / rangeBetween` calls that PySpark accepts — with
    order keys that say where NULLs go, each of partitionBy / orderBy called at most once, no builder
    called without arguments, and no frame boundary equal to `-(2^63-1)` — the value the emitted clause
    gives every row on the engine is the value Spark computes. -/
theorem C08_partial (T : Table) (ops : List BOp) (fn : WFn) (hs : sparkDef ops ≠ none)
    (h1 : H_orderKeysExplicit genFlags ops) (h2 : H_buildersOnce genFlags ops) (h3 : H_noEdgeBound ops)
    (h4 : H_nonEmptyArgs genFlags ops) (h5 : H_keysUnaliased genFlags ops) :
    modelColumn T ops fn = specColumn T ops fn := by
  cases hw : sparkDef ops with
  | none => exact absurd hw hs
  | some w =>
    unfold modelColumn specColumn
    rw [C08_def_agrees ops w hw h1 h2 h3, hw]
    unfold H_nonEmptyArgs at h4
    have h5' : clauseRejected (emit ops) = false := h5
    simp [h4, h5']

/-- the same with ROWS frames starting at `-(2^63-1)` (e.g. `rowsBetween(-sys.maxsize, 0)`) allowed,
    for tables of fewer than 2^63 rows -/
theorem C08_partial_rowsEdge (T : Table) (ops : List BOp) (fn : WFn) (hs : sparkDef ops ≠ none)
    (h1 : H_orderKeysExplicit genFlags ops) (h2 : H_buildersOnce genFlags ops) (h3 : H_noRangeEdgeBound ops)
    (h4 : H_nonEmptyArgs genFlags ops) (h5 : H_keysUnaliased genFlags ops) (hT : T.rows.length < 2 ^ 63) :
    modelColumn T ops fn = specColumn T ops fn := by
  cases hw : sparkDef ops with
  | none => exact absurd hw hs
  | some w =>
    obtain ⟨w0, he, hp, ho, hf⟩ := C08_frame_sem ops w hw h1 h2 h3
    unfold modelColumn specColumn
    unfold H_nonEmptyArgs at h4
    have h5' : clauseRejected (emit ops) = false := h5
    rw [he, hw]
    simp only [h4, h5', Bool.or_self, Bool.false_eq_true, if_false, Option.map_some, Option.some.injEq]
    have hT' : (extend T (keyCols ops)).rows.length < 2 ^ 63 := by rw [extend_rows_length]; exact hT
    generalize extend T (keyCols ops) = T' at hT'
    unfold windowColumn
    apply List.map_congr_left
    intro ir hir
    have hsp : sortedPartition T'.cols w0 (tagRows T'.rows) ir.2 = sortedPartition T'.cols w (tagRows T'.rows) ir.2 := by
      unfold sortedPartition; rw [hp, ho]
    simp only [hsp]
    apply evalFn_congr _ _ _ _ _ _ ho
    apply hf
    · have := posOf_lt T'.cols w (tagRows T'.rows) ir hir
      simpa using this
    · have := sortedPartition_length_le T'.cols w T'.rows ir.2
      simp only [List.length_map]
      omega

/-! ### specs are immutable values -/

/-- every builder works on a copy: after `spec2 = spec.<builder>(…)` every spec object that existed
    before — `spec` included — holds what it held, and `spec2` is a new object holding the updated clause;
    `fn.over(spec)` does not touch `spec` either -/
theorem C08_immutable_spec (h : Heap) (r : Nat) (op : BOp) :
    (∀ r', r' < h.length → (applyOp h r op).1[r']? = h[r']?) ∧
    (applyOp h r op).2 = h.length ∧
    (applyOp h r op).1[(applyOp h r op).2]? = some (update genFlags (h.getD r {}) op) ∧
    (∀ r', r' < h.length → (overOp h r).1[r']? = h[r']?) := by
  have hc : op.copies = true := by cases op <;> rfl
  have ho : overCopies = true := rfl
  refine ⟨?_, ?_, ?_, ?_⟩
  · intro r' hr'
    simp only [applyOp, hc, if_true]
    exact List.getElem?_append_left hr'
  · simp only [applyOp, hc, if_true]
  · simp only [applyOp, hc, if_true]
    simp
  · intro r' hr'
    simp only [overOp, ho, if_true]
    exact List.getElem?_append_left hr'

/-! ### a window column leaves the rest of the table alone -/

theorem zipWith_append_take : ∀ (rows : List Row) (vs : List Val) (n : Nat), rows.length = vs.length →
    (∀ r ∈ rows, r.length = n) → (List.zipWith (fun r v => r ++ [v]) rows vs).map (fun r => r.take n) = rows
  | [], _, _, _, _ => by simp
  | r :: rs, [], _, h, _ => by simp at h
  | r :: rs, v :: vs, n, h, hl => by
    simp only [List.zipWith_cons_cons, List.map_cons]
    have hr : r.length = n := hl r (List.mem_cons_self ..)
    rw [zipWith_append_take rs vs n (by simpa using h) (fun x hx => hl x (List.mem_cons_of_mem _ hx))]
    rw [List.take_append_of_le_length (by omega), ← hr, List.take_length]

theorem windowColumn_length (T : Table) (w : WinDef) (fn : WFn) : (windowColumn T w fn).length = T.rows.length := by
  unfold windowColumn; simp [tagRows_length]

/-- `df.withColumn(name, fn.over(w))`: same number of rows, in the same order, every existing column unchanged -/
theorem C08_anywhere (T : Table) (name : Name) (w : WinDef) (fn : WFn) (hT : T.WF) :
    (withWindowColumn T name w fn).rows.length = T.rows.length ∧
    (withWindowColumn T name w fn).rows.map (fun r => r.take T.cols.length) = T.rows ∧
    (withWindowColumn T name w fn).rows.map (fun r => r.drop T.cols.length) = (windowColumn T w fn).map (fun v => [v]) := by
  have hlen := windowColumn_length T w fn
  refine ⟨?_, ?_, ?_⟩
  · simp [withWindowColumn, hlen]
  · exact zipWith_append_take T.rows _ _ hlen.symm hT.2
  · unfold withWindowColumn
    simp only
    generalize windowColumn T w fn = vs at hlen
    have hrows := hT.2
    generalize T.cols.length = n at hrows
    generalize T.rows = rows at hlen hrows
    induction rows generalizing vs with
    | nil => cases vs <;> simp at hlen ⊢
    | cons r rs ih =>
      cases vs with
      | nil => simp at hlen
      | cons v vs =>
        simp only [List.zipWith_cons_cons, List.map_cons]
        rw [ih vs (by simpa using hlen) (fun x hx => hrows x (List.mem_cons_of_mem _ hx))]
        have hr : r.length = n := hrows r (List.mem_cons_self ..)
        rw [List.drop_append_of_le_length (by omega), ← hr, List.drop_length]
        rfl


/-! ### window columns anywhere in a DataFrame chain

The statement compiled from a chain holds each window function in the select list of one SELECT block, and
the engine evaluates a block's WHERE before its window functions and its DISTINCT / ORDER BY / LIMIT after
them — in that order, whatever the order of the calls.  The theorems below are about the model of
Impl/C08Chain.lean (the open block, `operation.wrapper` with every decision from the regenerated
`Gen.Operations`, the method tags of `Gen.Methods`, the clause flags of `Gen.Clauses`, the shape of
`withColumn` / `withColumns` / `_convert_leaf_to_cte` from `Gen.WinChain`). -/

/-- Everything the wrap rule of `operation.wrapper` must guarantee (generated predicate, 81 cases): a call
    joins the open block only if its clause is not earlier in SQL's clause order than the last one, and two
    select lists never share a block.  So a `where` after a call that wrote a select list — the place a window
    function lives — always goes over a CTE of it. -/
theorem C08_wrap_sound : ∀ last new : Op, wrapCond last new = false →
    last.toInt ≤ new.toInt ∧ ¬ (last = .select ∧ new = .select) := wrapCond_soundW

/-- the `group_operation` decorator (around `GroupedData.agg`) is generated separately and takes the same decisions
    as `operation`: a `groupBy(...).agg(...)` after a window column freezes the window's block first -/
theorem C08_group_decorator_agrees :
    (∀ l : Op, initCondGroup l = initCond l) ∧ (∀ a b : Op, wrapCondGroup a b = wrapCond a b) ∧
    (∀ a b : Op, newOpGroup a b = newOp a b) ∧ initResetGroup = initReset ∧ (∀ a b : Op, lastAfterGroup a b = lastAfter a b) :=
  ⟨initCondGroup_eq, wrapCondGroup_eq, newOpGroup_eq, initResetGroup_eq, lastAfterGroup_eq⟩

/-- `select` and `withColumn` (the calls that add a window column) leave `last_op = SELECT` … -/
theorem C08_select_family_last (d : WDF) (it : Item) (items : List Item) :
    (d.apply (.withColumn it)).last = .select ∧ (d.apply (.select items)).last = .select := by
  constructor
  · simp only [WDF.apply, tag_withColumn, wrapperW_eq _ (show Op.select ≠ .noOp by decide)]
  · simp only [WDF.apply, tag_select, wrapperW_eq _ (show Op.select ≠ .noOp by decide)]

/-- … and the next `where` / `filter` freezes that block into a CTE (one more CTE than before; the new block
    reads the frozen block's *result*) and only then adds its predicate: the filter can never reach the WHERE
    of the block the window function is in -/
theorem C08_where_after_select_new_block (d : WDF) (p : Expr) (h : d.last = .select) :
    (d.apply (.wher p)).ctes = d.ctes + 1 ∧ (d.apply (.wher p)).src = d.eval ∧
    (d.apply (.wher p)).blk.wher = [p] := by
  have hi : initCond d.last = false := by rw [h]; decide
  have hw : wrapCond d.last (newOp .wher d.last) = true := by rw [h]; decide
  refine ⟨?_, ?_, ?_⟩ <;>
    simp [WDF.apply, tag_where, wrapperW, hi, hw, bodyWhereW, whereAppend, WDF.wrap, convertLeafFreshSelect]

/-- **Chains.**  For every well-formed table and every chain — of any length and in any order — of `where`,
    `select`, `withColumn`, `drop`, `distinct`, `orderBy`, `limit` and `groupBy(…).agg(…)` calls whose select items may be window functions
    (added with `withColumn` or inside `select`, under a new name or replacing a column, several per call or
    one after the other), the compiled statement returns what the calls mean one after the other: every window
    function ranges over exactly the rows the calls before it produced, and the calls after it act on its
    result.  (`ChainOK`: select lists and aggregate lists have distinct names, `orderBy` has a key, no two adjacent `orderBy`.) -/
theorem C08_chain (T : Table) (steps : List CStep) (hT : T.WF) (hok : ChainOK T false steps) :
    ((WDF.init T).run steps).eval = specRunW T steps := by
  have hf := init_freshW T hT
  have he : (WDF.init T).eval = T := fresh_evalW _ hf
  have := chain_runW steps (WDF.init T) false hf.inv (fun _ => by simp [WDF.init]) (by rw [he]; exact hok)
  rw [he] at this
  exact this.1

/-- the specification's `withColumn(name, fn.over(w))` for a new name is `withWindowColumn` of `C08_anywhere`
    / `C08_partial`: the column is appended, its values are `windowColumn`'s -/
theorem zipWith_map_map {α β γ δ} (f : β → γ → δ) (a : α → β) (b : α → γ) : ∀ (l : List α),
    List.zipWith f (l.map a) (l.map b) = l.map (fun x => f (a x) (b x))
  | [] => rfl
  | x :: xs => by simp [zipWith_map_map f a b xs]

theorem C08_window_item_column (T : Table) (name : Name) (w : WinDef) (fn : WFn) (hT : T.WF) (hn : name ∉ T.cols) :
    specStepW T (.withColumn (.win name w fn)) = withWindowColumn T name w fn := by
  have hw : withItem T.cols (.win name w fn) = identItems T.cols ++ [.win name w fn] := by
    simp [withItem, Item.name, hn, Gen.WinChain.withColumnsNewAtEnd]
  simp only [specStepW, projectW, hw, withWindowColumn, List.map_append, identItems_names, List.map_cons, List.map_nil,
    Item.name]
  congr 1
  have hc : windowColumn T w fn = (tagRows T.rows).map (windowVal T w fn) := rfl
  rw [hc]
  conv => rhs; arg 2; rw [← tagRows_snd T.rows]
  rw [zipWith_map_map]
  simp only [stSelectW]
  apply List.map_congr_left
  intro ir hir
  simp only [List.map_append, List.map_cons, List.map_nil, itemVal]
  rw [ident_rowW T ir hT.1 (hT.2 _ (tagRows_mem _ _ hir))]

/-- `withColumn` with a window function (or any item) keeps the shape of the table: the same number of rows, the same
    columns in the same positions when the name exists (the column is replaced in place), one more column at the end
    when it is new -/
theorem C08_withColumn_shape (T : Table) (it : Item) :
    (specStepW T (.withColumn it)).rows.length = T.rows.length ∧
    (specStepW T (.withColumn it)).cols = (if it.name ∈ T.cols then T.cols else T.cols ++ [it.name]) := by
  constructor
  · simp [specStepW, projectW, stSelectW, tagRows_length]
  · simp only [specStepW, projectW]
    exact withItem_names T.cols it

/-- in scope, the engine's reading of the emitted clause is PySpark's window -/
theorem C08_resolve_agrees (ops : List BOp) (h : SpecInScope ops) : modelResolve ops = sparkDef ops := by
  obtain ⟨hs, h1, h2, h3, h4, h5⟩ := h
  cases hw : sparkDef ops with
  | none => exact absurd hw hs
  | some w =>
    unfold modelResolve
    rw [C08_def_agrees ops w hw h1 h2 h3]
    unfold H_nonEmptyArgs at h4
    have h5' : clauseRejected (emit ops) = false := h5
    simp [h4, h5']

/-- **C08 for chains (proved part).**  For every table and every program of DataFrame calls whose window
    specs are built by `partitionBy / orderBy / rowsBetween / rangeBetween` calls in the scope of `C08_partial`:
    what the compiled statement returns on the engine is what PySpark returns for the same calls. -/
theorem C08_chain_partial (T : Table) (prog : List UStep) (steps : List CStep) (hT : T.WF)
    (hscope : ∀ ops ∈ progSpecs prog, SpecInScope ops)
    (hres : resolveSteps sparkDef prog = some steps) (hok : ChainOK T false steps) :
    modelChain T prog = specChain T prog := by
  have hr : resolveSteps modelResolve prog = resolveSteps sparkDef prog :=
    resolveSteps_congr _ _ prog (fun ops ho => C08_resolve_agrees ops (hscope ops ho))
  unfold modelChain specChain
  rw [hr, hres]
  simp only [Option.map_some]
  rw [C08_chain T steps hT hok]

/-! ### ranking laws (every table, every window) -/

/-- inside each partition `row_number` takes every value 1..n exactly once -/
theorem C08_row_number_perm (T : Table) (w : WinDef) (r : Row) :
    let tg := tagRows T.rows
    let part := partitionOf T.cols w.part tg r
    (part.map (fun ir => evalFn T.cols w .rowNumber ((sortedPartition T.cols w tg ir.2).map (·.2))
        (posOf ir.1 (sortedPartition T.cols w tg ir.2)))).Perm
      ((List.range part.length).map (fun (i : Nat) => Val.int ((i : Int) + 1))) := by
  intro tg part
  have hsame : ∀ ir ∈ part, sortedPartition T.cols w tg ir.2 = sortedPartition T.cols w tg r := by
    intro ir hir
    have hk : partKey T.cols w.part ir.2 = partKey T.cols w.part r := by
      have := (List.mem_filter.mp hir).2
      simpa using this
    unfold sortedPartition partitionOf
    simp only [hk]
  let S := sortedPartition T.cols w tg r
  have h1 : part.map (fun ir => evalFn T.cols w .rowNumber ((sortedPartition T.cols w tg ir.2).map (·.2))
        (posOf ir.1 (sortedPartition T.cols w tg ir.2)))
      = ((part.map (·.1)).map (fun a => (S.map (·.1)).idxOf a)).map (fun (i : Nat) => Val.int ((i : Int) + 1)) := by
    rw [List.map_map, List.map_map]
    apply List.map_congr_left
    intro ir hir
    rw [hsame ir hir]
    simp [evalFn, posOf, S]
  rw [h1]
  apply List.Perm.map
  have hperm : (part.map (·.1)).Perm (S.map (·.1)) := ((sortedPartition_perm T.cols w tg r).map _).symm
  have hnd : (S.map (·.1)).Nodup := hperm.nodup_iff.mp (partition_tags_nodup T.cols w.part T.rows r)
  have := (hperm.map (fun a => (S.map (·.1)).idxOf a))
  rw [map_idxOf_self _ hnd] at this
  have hl : (S.map (·.1)).length = part.length := by
    rw [← hperm.length_eq]; simp
  rw [hl] at this
  exact this

/-- `dense_rank ≤ rank` for every row of every ordered partition -/
theorem C08_dense_rank_le_rank (cols : List Name) (ok : List OrdKey) (P : List Row) (cur : Row) :
    denseRankOf cols ok P cur ≤ rankOf cols ok P cur := by
  unfold denseRankOf rankOf
  have := dedup_length_le ((P.filter (fun q => strictBefore cols ok q cur)).map (ordKey cols ok))
  rw [List.length_map, ← List.countP_eq_length_filter] at this
  omega

theorem rowLe_congr_left (cols : List Name) : ∀ (ok : List OrdKey) (a b q : Row),
    ordKey cols ok a = ordKey cols ok b → rowLe cols ok a q = rowLe cols ok b q
  | [], _, _, _, _ => rfl
  | k :: ks, a, b, q, h => by
    simp only [ordKey, List.map_cons, List.cons.injEq] at h
    simp only [rowLe, h.1]
    rw [rowLe_congr_left cols ks a b q h.2]

theorem rowLe_congr_right (cols : List Name) : ∀ (ok : List OrdKey) (a b q : Row),
    ordKey cols ok a = ordKey cols ok b → rowLe cols ok q a = rowLe cols ok q b
  | [], _, _, _, _ => rfl
  | k :: ks, a, b, q, h => by
    simp only [ordKey, List.map_cons, List.cons.injEq] at h
    simp only [rowLe, h.1]
    rw [rowLe_congr_right cols ks a b q h.2]

/-- peers (rows equal on every order key) get the same `rank` and the same `dense_rank` -/
theorem C08_rank_peers (cols : List Name) (ok : List OrdKey) (P : List Row) (a b : Row)
    (h : ordKey cols ok a = ordKey cols ok b) :
    rankOf cols ok P a = rankOf cols ok P b ∧ denseRankOf cols ok P a = denseRankOf cols ok P b := by
  have hs : (fun q => strictBefore cols ok q a) = (fun q => strictBefore cols ok q b) := by
    funext q; simp only [strictBefore, rowLe_congr_left cols ok a b q h]
  unfold rankOf denseRankOf
  rw [hs]
  exact ⟨rfl, rfl⟩

/-! ### the scope hypotheses are not vacuous: counterexamples (replayed on the real code by the check) -/

def cexTable : Table :=
  { cols := ["id", "g", "h", "v", "x"],
    rows := [[.int 0, .int 1, .str "a", .null, .int 10], [.int 1, .int 1, .str "b", .int 2, .int 20], [.int 2, .int 1, .str "a", .int 1, .int 30]] }

/-- `Window.partitionBy('g').orderBy('v')` with a bare name: the engine sorts the NULL key last, Spark
    first — `row_number` is 3 for the NULL row where Spark says 1 -/
theorem C08_cex_orderKeysExplicit : genFlags.colWrap = none →
    modelColumn cexTable [.partitionBy ["g"], .orderBy [{ name := "v", form := .bare }]] .rowNumber = some [.int 3, .int 2, .int 1] ∧
    specColumn cexTable [.partitionBy ["g"], .orderBy [{ name := "v", form := .bare }]] .rowNumber = some [.int 1, .int 3, .int 2] := by
  decide

/-- the same for an expression key: `Window.partitionBy('g').orderBy(-col('v'))` — the key is NULL where v is,
    the engine sorts it last (row_number 3), Spark first (1) -/
theorem C08_cex_exprKeysExplicit : genFlags.exprWrap = none →
    modelColumn cexTable [.partitionBy ["g"], .orderBy [{ name := "k0", form := .bare, expr := some (.neg (.col "v")) }]] .rowNumber
      = some [.int 3, .int 1, .int 2] ∧
    specColumn cexTable [.partitionBy ["g"], .orderBy [{ name := "k0", form := .bare, expr := some (.neg (.col "v")) }]] .rowNumber
      = some [.int 1, .int 2, .int 3] := by
  decide

/-- `Window.orderBy(when(col('v') > 0, col('v')).otherwise(col('x')))`: the key is a function result, its Column is
    auto-aliased, `orderBy` reads `.expression` and emits `ORDER BY CASE … END AS when__v__`: the engine rejects it -/
def cexAliasedKey : UKey :=
  { name := "k0", form := .bare, expr := some (.ite (.bin .gt (.col "v") (.lit (.int 0))) (.col "v") (.col "x")), aliased := true }

theorem C08_cex_keysUnaliased : genFlags.orderKeepsAlias = true →
    modelColumn cexTable [.orderBy [cexAliasedKey]] .rank = none ∧
    specColumn cexTable [.orderBy [cexAliasedKey]] .rank = some [.int 3, .int 2, .int 1] := by
  decide

/-- `Window.partitionBy('h').partitionBy('g')` partitions by (h, g) where Spark partitions by g only;
    `orderBy('v').orderBy(col('id').desc())` keeps v as the leading key where Spark orders by id only -/
theorem C08_cex_buildersOnce :
    (genFlags.partExtends = true →
      modelColumn cexTable [.partitionBy ["h"], .partitionBy ["g"]] (.sum "x") ≠
      specColumn cexTable [.partitionBy ["h"], .partitionBy ["g"]] (.sum "x")) ∧
    (genFlags.orderExtends = true →
      modelColumn cexTable [.orderBy [{ name := "v", form := .asc }], .orderBy [{ name := "id", form := .desc }]] .rowNumber ≠
      specColumn cexTable [.orderBy [{ name := "v", form := .asc }], .orderBy [{ name := "id", form := .desc }]] .rowNumber) := by
  decide

/-- `rangeBetween(-sys.maxsize, 0)` on `ORDER BY v ASC NULLS LAST`: stored as `9223372036854775807 PRECEDING`,
    the NULL row's frame is its peer group (sum 10); PySpark's UNBOUNDED PRECEDING covers the partition (60) -/
theorem C08_cex_rangeEdgeBound : boundOf (getValueAndSide edgeStart) = some (.preceding bigK) →
    modelColumn cexTable [.orderBy [{ name := "v", form := .ascNullsLast }], .rangeBetween edgeStart 0] (.sum "x") = some [.int 10, .int 50, .int 30] ∧
    specColumn cexTable [.orderBy [{ name := "v", form := .ascNullsLast }], .rangeBetween edgeStart 0] (.sum "x") = some [.int 60, .int 50, .int 30] := by
  decide

/-- `Window.partitionBy()` (PySpark: one partition holding every row) raises in sqlframe -/
theorem C08_cex_nonEmptyArgs : genFlags.partIndexesFirst = true →
    modelColumn cexTable [.partitionBy []] (.sum "x") = none ∧
    specColumn cexTable [.partitionBy []] (.sum "x") = some [.int 60, .int 60, .int 60] := by
  decide

/-- why the wrap before a `where` is needed: had the filter `id >= 1` joined the block of
    `withColumn('w', row_number().over(Window.orderBy(col('id').asc())))`, the engine would number only the
    surviving rows (1, 2) where PySpark numbers all rows and then filters (2, 3) -/
def cexRowNumber : Item := .win "w" { order := [{ name := "id", desc := false, nullsFirst := true }] } .rowNumber
def cexFilter : Expr := .bin .ge (.col "id") (.lit (.int 1))

theorem C08_cex_whereInWindowBlock :
    (evalWBlock { wher := [cexFilter], sel := identItems cexTable.cols ++ [cexRowNumber] } cexTable).rows.map (fun r => r.getLast?)
      = [some (.int 1), some (.int 2)] ∧
    (specRunW cexTable [.withColumn cexRowNumber, .wher cexFilter]).rows.map (fun r => r.getLast?)
      = [some (.int 2), some (.int 3)] ∧
    ((WDF.init cexTable).run [.withColumn cexRowNumber, .wher cexFilter]).eval
      = specRunW cexTable [.withColumn cexRowNumber, .wher cexFilter] := by
  decide

/-! ### non-vacuity: a concrete chain meets every hypothesis of `C08_partial`, and the values are not trivial -/

def exOps : List BOp :=
  [.partitionBy ["g"], .orderBy [{ name := "v", form := .desc }, { name := "id", form := .ascNullsLast }], .rowsBetween (-1) 9223372036854775807]

example : sparkDef exOps ≠ none ∧ H_orderKeysExplicit genFlags exOps ∧ H_buildersOnce genFlags exOps ∧
    H_noEdgeBound exOps ∧ H_nonEmptyArgs genFlags exOps ∧ H_keysUnaliased genFlags exOps := by decide

example : modelColumn cexTable exOps (.sum "x") = some [.int 40, .int 60, .int 60] := by decide

/-- `C08_partial_rowsEdge` is not vacuous either: `rowsBetween(-sys.maxsize, 0)` is in its scope -/
example : H_noRangeEdgeBound [.orderBy [{ name := "id", form := .asc }], .rowsBetween edgeStart 0] ∧
    sparkDef [.orderBy [{ name := "id", form := .asc }], .rowsBetween edgeStart 0] ≠ none := by decide

/-- `C08_bound` at the edge value and next to it -/
example : pysparkStart .range (-9223372036854775807) = some .unboundedPreceding ∧
    pysparkStart .range (-9223372036854775806) = some (.preceding 9223372036854775806) ∧
    pysparkEnd .rows 2 = some (.following 2) := by decide

example : (List.range 3).map (fun (i : Nat) => Val.int ((i : Int) + 1)) = [.int 1, .int 2, .int 3] := by decide


/-- `C08_chain` / `C08_chain_partial` are not vacuous: a filter, a window column, a filter on a passed-through column,
    a second window over the first, ORDER BY + LIMIT -/
def exProg : List UStep :=
  [.wher (.not (.isNull (.col "v"))),
   .withColumn (.win "w" [.partitionBy ["g"], .orderBy [{ name := "id", form := .asc }]] (.sum "x")),
   .wher (.bin .ge (.col "id") (.lit (.int 2))),
   .select [.expr "id" (.col "id"), .expr "w" (.col "w"), .win "w2" [.orderBy [{ name := "w", form := .desc }, { name := "id", form := .asc }]] .rowNumber],
   .orderBy [{ name := "id", desc := true, nullsFirst := false }], .limit 1,
   .groupAgg ["id"] [{ name := "m", kind := .max, col := "w2" }]]

example : cexTable.WF ∧ (∀ ops ∈ progSpecs exProg, SpecInScope ops) ∧
    (∃ steps, resolveSteps sparkDef exProg = some steps ∧ ChainOK cexTable false steps) := by
  refine ⟨by decide, by decide, _, rfl, by decide⟩

example : specChain cexTable exProg = some { cols := ["id", "m"], rows := [[.int 2, .int 1]] } := by decide

/-! ### the full statement, for the record

C08 as given quantifies over all window specs, the fifteen listed functions and all tables.
`C08_partial` / `C08_partial_rowsEdge` prove it for row_number, rank, dense_rank, ntile, lag, lead, sum,
min, max, count, first, last under the four named scope hypotheses (each has a counterexample above
that the check replays on the real code).  NOT covered by a theorem: percent_rank, cume_dist, avg
(ratios — evaluated by the same model and compared executably only); that DuckDB and Spark evaluate a
*resolved* window as Impl/C08Window.lean says (assumed; validated by the correspondence stream and
against live PySpark); partition keys that are expressions rather than columns.  What the surrounding DataFrame chain does with
the column: `C08_chain` / `C08_chain_partial` (where / select / withColumn / drop / distinct / orderBy / limit / groupBy().agg() with sum, min, max, count;
joins and set operations around a window column are the subject of C02 / C07). -/
def C08_full_statement : Prop :=
  ∀ (T : Table) (ops : List BOp) (fn : WFn), sparkDef ops ≠ none → modelColumn T ops fn = specColumn T ops fn

end Sqlframe
