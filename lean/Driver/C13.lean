/-
Driver/C13.lean — line-protocol driver for C13 histories.
in : {"case": n, "tables": [[name, Table]], "events": [Ev]}
out: {"case": n, "events": [ per event:
        {"kind": "frame", "model": table|null, "spec": table|null, "scope": [violated hypothesis names], "chain": [cte names]}
      | {"kind": "register", "keys": [registry keys], "stale": bool, "cols": [columns the catalog holds], "dfCols": [the frame's columns]}
      | {"kind": "skip"} ]}
The model side evaluates `Views.step` / `execFrame` (the definitions the C13 theorems are about); the
specification side evaluates `Views.specStep`.  A frame inherits the violated hypotheses of the frames /
views it was built from.  Pure function of its input lines.
-/
import SqlframeModel.Codec.C13
open Lean Sqlframe Sqlframe.Views

structure Case where
  case : Nat
  tables : List (String × Table)
  events : List Ev
  deriving FromJson

def strHash (s : String) : Nat := s.foldl (fun h c => (h * 131 + c.toNat) % 1000000007) 7

/-- content-dependent CTE names (the code: CRC32 of the SQL text) -/
def drvNamer : Namer := fun cs b => "t" ++ toString (strHash (reprStr (cs.map (·.1), b)))

def drvNorm : String → String := String.toLower

def optTable : Option Table → Json
  | some T => T.toPlain
  | none => Json.null

def union (a b : List String) : List String := a ++ b.filter (fun x => !a.contains x)

structure DSt where
  σ : St
  s : SpecSt
  taint : List (List String)            -- per frame
  viewTaint : List (String × List String) -- per registry key
  out : List Json

def frameOut (db : Db) (d : DSt) (σ' : St) (s' : SpecSt) (scope : List String) : DSt :=
  let fr := σ'.frames.getLast?
  let m := fr.bind (execFrame db)
  let sp := s'.vals.getLast?.join
  let chain := (fr.map (fun f => names f.ctes)).getD []
  { σ := σ', s := s', taint := d.taint ++ [scope], viewTaint := d.viewTaint,
    out := d.out ++ [Json.mkObj [("kind", "frame"), ("model", optTable m), ("spec", optTable sp),
                                 ("scope", toJson scope), ("chain", toJson chain)]] }

def handleEv (db : Db) (d : DSt) (e : Ev) : DSt :=
  let σ' := step drvNamer drvNorm db d.σ e
  let s' := specStep drvNorm db d.s e
  let skip : DSt := { d with σ := σ', s := s', out := d.out ++ [Json.mkObj [("kind", "skip")]] }
  match e with
  | .create _ => frameOut db d σ' s' []
  | .register name i =>
    match d.σ.frames[i]? with
    | none => skip
    | some _ =>
      let key := regKey drvNorm name
      let t := (d.taint[i]?).getD []
      let stale := match assoc σ'.reg key with | some en => en.stale | none => false
      let cols := match assoc σ'.reg key with | some en => en.schemaCols | none => []
      let dfCols := match assoc σ'.reg key with | some en => en.cols | none => []
      { σ := σ', s := s', taint := d.taint, viewTaint := setAssoc d.viewTaint key t,
        out := d.out ++ [Json.mkObj [("kind", "register"), ("keys", toJson (names σ'.reg)), ("stale", toJson stale),
                                     ("cols", toJson cols), ("dfCols", toJson dfCols)]] }
  | .table name =>
    let t := (assoc d.viewTaint (tableKey drvNorm name)).getD []
    frameOut db d σ' s' t
  | .sql q =>
    let fr := sqlFrameChecked drvNamer drvNorm db d.σ.reg q
    let own := violated db drvNorm d.σ.reg q fr
    let inherited := (q.refs.map (fun n => (assoc d.viewTaint (drvNorm n)).getD [])).foldl union []
    frameOut db d σ' s' (union own inherited)
  | .transform i _ =>
    match d.σ.frames[i]? with
    | none => skip
    | some _ => frameOut db d σ' s' ((d.taint[i]?).getD [])
  | .joinBack i name _ =>
    match d.σ.frames[i]? with
    | none => skip
    | some _ => frameOut db d σ' s' (union ((d.taint[i]?).getD []) ((assoc d.viewTaint (tableKey drvNorm name)).getD []))

def handle (line : String) : String :=
  match Json.parse line >>= fromJson? (α := Case) with
  | .error e => Json.compress (Json.mkObj [("err", toJson s!"bad-input: {e}")])
  | .ok c =>
    let db : Db := fun n => assoc c.tables n
    let d0 : DSt := { σ := ⟨[], []⟩, s := ⟨[], []⟩, taint := [], viewTaint := [], out := [] }
    let d := c.events.foldl (handleEv db) d0
    Json.compress (Json.mkObj [("case", toJson c.case), ("events", Json.arr d.out.toArray)])

partial def loop (h : IO.FS.Stream) (out : IO.FS.Stream) : IO Unit := do
  let line ← h.getLine
  if line.isEmpty then return ()
  if line.trimAscii.isEmpty then loop h out else
  out.putStrLn (handle line)
  loop h out

def main : IO Unit := do
  let out ← IO.getStdout
  loop (← IO.getStdin) out
