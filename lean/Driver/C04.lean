/-
Driver/C04.lean — line-protocol driver for the object-level model.
in : {"case": n, "table": Table, "calls": [Call]}     (object 0 = DF.init table with identity display map)
out: per call: indices of pre-existing DataFrame objects whose `observe` changed, indices of handles that
     changed, and how many statements were sent; plus the final observation of every object.
-/
import SqlframeModel.Codec.C04
open Lean Sqlframe

structure Case where
  case : Nat
  table : Table
  calls : List Call
  deriving FromJson

def changedObjs (a b : Heap) : List Nat :=
  (List.range a.objs.length).filter (fun i => (a.objs[i]?).map observe != (b.objs[i]?).map observe)

def changedHandles (a b : Heap) : List Nat :=
  (List.range a.handles.length).filter (fun i => a.handles[i]? != b.handles[i]?)

def stepAll (h : Heap) : List Call → List Json → List Json × Heap
  | [], acc => (acc.reverse, h)
  | c :: cs, acc =>
    let h' := exec h c
    let j := Json.mkObj [("objs", toJson (changedObjs h h')), ("handles", toJson (changedHandles h h')),
                         ("engine", toJson (h'.engineCalls - h.engineCalls)), ("nobjs", toJson h'.objs.length)]
    stepAll h' cs (j :: acc)

def handle (line : String) : String :=
  match Json.parse line >>= fromJson? (α := Case) with
  | .error e => Json.compress (Json.mkObj [("err", toJson s!"bad-input: {e}")])
  | .ok c =>
    let h0 : Heap := { objs := [{ df := DF.init c.table, display := c.table.cols.map (fun x => (x, x)) }], handles := [], engineCalls := 0 }
    let (js, hf) := stepAll h0 c.calls []
    let finals := hf.objs.map (fun o => Json.mkObj [("table", (observe o).1.toPlain), ("names", toJson (observe o).2)])
    Json.compress (Json.mkObj [("case", toJson c.case), ("steps", Json.arr js.toArray), ("final", Json.arr finals.toArray)])

partial def loop (h : IO.FS.Stream) (out : IO.FS.Stream) : IO Unit := do
  let line ← h.getLine
  if line.isEmpty then return ()
  if line.trimAscii.isEmpty then loop h out else
  out.putStrLn (handle line)
  loop h out

def main : IO Unit := do
  let out ← IO.getStdout
  loop (← IO.getStdin) out
