/-
Driver/C04.lean — line-protocol driver for the object-level model.
in : {"case": n, "table": Table, "calls": [Call]}     (object 0 = DF.init table with identity display map)
out: per call: indices of pre-existing DataFrame objects whose `observe` changed (rows / names / hint comments), indices whose
     internal hint state changed (pending list, hint clause, what their join hints name), indices of handles that changed, how
     many statements were sent; plus the final observation of every object and the violated scope hypotheses.
-/
import SqlframeModel.Codec.C04
open Lean Sqlframe

structure Case where
  case : Nat
  table : Table
  calls : List Call
  deriving FromJson

def changedObjs (a b : Heap) : List Nat :=
  (List.range a.objs.length).filter (fun i => (a.objs[i]?).map observe != (b.objs[i]?).map observe)

def hintState (cells : List Nat) (o : Obj) : List Hint × List Hint × List Bool := (o.pending, o.attached, hintTargets cells o)

def changedHints (a b : Heap) : List Nat :=
  (List.range a.objs.length).filter (fun i => (a.objs[i]?).map (hintState a.cells) != (b.objs[i]?).map (hintState b.cells))

def changedHandles (a b : Heap) : List Nat :=
  (List.range a.handles.length).filter (fun i => a.handles[i]? != b.handles[i]?)

def stepAll (h : Heap) : List Call → List Json → List Json × Heap
  | [], acc => (acc.reverse, h)
  | c :: cs, acc =>
    let h' := exec h c
    let j := Json.mkObj [("objs", toJson (changedObjs h h')), ("hints", toJson (changedHints h h')), ("handles", toJson (changedHandles h h')),
                         ("engine", toJson (h'.engineCalls - h.engineCalls)), ("nobjs", toJson h'.objs.length)]
    stepAll h' cs (j :: acc)

def handle (line : String) : String :=
  match Json.parse line >>= fromJson? (α := Case) with
  | .error e => Json.compress (Json.mkObj [("err", toJson s!"bad-input: {e}")])
  | .ok c =>
    let h0 : Heap := { objs := [{ df := DF.init c.table, display := c.table.cols.map (fun x => (x, x)) }], handles := [], engineCalls := 0 }
    let (js, hf) := stepAll h0 c.calls []
    let finals := hf.objs.map (fun o => Json.mkObj [("table", (observe o).1.toPlain), ("names", toJson (observe o).2.1), ("hints", toJson (hintView o)),
                                                     ("pending", toJson (o.pending.map (·.text))), ("targets", toJson (hintTargets hf.cells o)),
                                                     ("last", toJson (reprStr o.df.last))])
    let viol : List String := if decide (H_hint_nodes_private c.calls) then [] else ["H_hint_nodes_private"]
    Json.compress (Json.mkObj [("case", toJson c.case), ("steps", Json.arr js.toArray), ("final", Json.arr finals.toArray), ("violated", toJson viol)])

partial def loop (h : IO.FS.Stream) (out : IO.FS.Stream) : IO Unit := do
  let line ← h.getLine
  if line.isEmpty then return ()
  if line.trimAscii.isEmpty then loop h out else
  out.putStrLn (handle line)
  loop h out

def main : IO Unit := do
  let out ← IO.getStdout
  loop (← IO.getStdin) out
