/-
Driver/C06.lean — line-protocol driver for C06 (grouping and aggregation).
in : {"case": n, "table": Table, "steps": [GStep]}
out: {"case": n, "wf": bool, "model": table, "modelErr": bool (the engine rejects a statement of the chain),
      "spec": table, "scope": [violated hypothesis names]}
in : {"gen": true}
out: the generated decisions of Gen.Group as the model sees them
Pure function of its input lines; evaluates the definitions the theorems of Props/C06.lean are about.
-/
import SqlframeModel.Codec.C06
open Lean Sqlframe Sqlframe.Gen

structure Case where
  case : Nat
  table : Table
  steps : List GStep
  deriving FromJson

def handleCase (c : Case) : String :=
  let d := (DF.init c.table).runG c.steps
  Json.compress (Json.mkObj [
    ("case", toJson c.case),
    ("wf", toJson (decide (c.table.WF ∧ GStepsWF c.table c.steps))),
    ("model", d.eval.toPlain),
    ("modelErr", toJson ((DF.init c.table).runGErr c.steps)),
    ("spec", (specRunG c.table c.steps).toPlain),
    ("scope", toJson (violatedC06 c.table c.steps))])

def keyClasses : List KeyClass := [.strLit, .numLit, .boolLit, .nullLit, .column, .other]

/-- expressions whose class the check compares with the class sqlglot gives the same key -/
def keyClassProbes : List Sqlframe.Expr :=
  [.lit (.str "a"), .lit (.str ""), .lit (.int 1), .lit (.int 0), .lit (.int (-1)), .lit (.bool true), .lit (.bool false), .lit .null,
   .col "k", .bin .add (.lit (.int 1)) (.lit (.int 1)), .bin .add (.col "k") (.lit (.int 1)), .bin .gt (.col "k") (.lit (.int 0)),
   .isNull (.col "k"), .neg (.col "k"), .not (.bin .gt (.col "k") (.lit (.int 0))), .ite (.bin .gt (.col "k") (.lit (.int 0))) (.lit (.int 1)) (.lit (.int 2))]

def handleGen : String :=
  Json.compress (Json.mkObj [
    ("groupByKeeps", Json.arr (keyClasses.map (fun c => toJson [reprStr c, toString (groupByKeeps c)])).toArray),
    ("groupingSetKeeps", Json.arr (keyClasses.map (fun c => toJson [reprStr c, toString (groupingSetKeeps c)])).toArray),
    ("keyClassProbes", Json.arr (keyClassProbes.map (fun e => toJson (reprStr (keyClass e)))).toArray),
    ("shortcutTable", Json.arr (shortcutTable.map (fun e => toJson [e.1, e.2])).toArray),
    ("shortcutAliasExample", toJson (shortcutAlias "FN" "COL")),
    ("countAlias", toJson countAlias),
    ("countArgIsStar", toJson countArgIsStar),
    ("groupAggTag", toJson (reprStr groupAggTag)),
    ("cubeTag", toJson (reprStr tag_cube)),
    ("groupByTag", toJson (reprStr tag_groupBy)),
    ("dfAggTag", toJson (reprStr tag_agg)),
    ("cubeSets3", toJson (cubeSets [0, 1, 2])),
    ("cubeSizes", toJson ((List.range 5).map cubeSizes))])

def handle (line : String) : String :=
  match Json.parse line with
  | .error e => Json.compress (Json.mkObj [("err", toJson s!"bad-json: {e}")])
  | .ok j =>
    if (j.getObjVal? "gen").isOk then handleGen
    else match fromJson? (α := Case) j with
      | .ok c => handleCase c
      | .error e => Json.compress (Json.mkObj [("err", toJson s!"bad-input: {e}")])

partial def loop (h : IO.FS.Stream) (out : IO.FS.Stream) : IO Unit := do
  let line ← h.getLine
  if line.isEmpty then return ()
  if line.trimAscii.isEmpty then loop h out else
  out.putStrLn (handle line)
  loop h out

def main : IO Unit := do
  let out ← IO.getStdout
  loop (← IO.getStdin) out
