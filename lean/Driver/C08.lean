/-
Driver/C08.lean — line-protocol driver for C08 (window specifications and functions).
in : {"case": n, "table": Table, "ops": [BOp], "fn": WFn | null, "rfn": RFn | null,
      "pre": Expr | null, "post": Expr | null, "name": "w"}
      (exactly one of fn / rfn; `pre` filters before the window column is added, `post` after, and may
       mention the window column)
     or {"case": n, "table": Table, "chain": [UStep]} — a DataFrame chain whose select items may be window
        functions (Impl/C08Chain.lean); out: {"case", "model", "spec", "scope", "accepts", "determined",
        "trace": [CTE count after each step], "flags": the generated Gen.WinChain decisions}
     or {"case": n, "bound": x}   — the generated boundary function on one integer
     or {"case": n, "gen": true}  — the generated constants / tables / flags (compared with the live objects)
out: {"case", "emit": <the clause the model says sqlframe stores>, "scope": [violated hypotheses],
      "model": {"cols","rows"} | {"err"}, "spec": {"cols","rows"} | {"err"}, "accepts": bool, "unique": bool}
Evaluates the same definitions the theorems of Props/C08.lean are about.  Pure function of its input.
-/
import SqlframeModel.Codec.C08
open Lean Sqlframe Sqlframe.Win Sqlframe.Gen.Win

structure Case where
  case : Nat
  table : Table
  ops : List BOp
  fn : Option WFn := none
  rfn : Option RFn := none
  pre : Option Sqlframe.Expr := none
  post : Option Sqlframe.Expr := none
  name : String
  deriving FromJson

structure BoundCase where
  case : Nat
  bound : Int
  deriving FromJson

def rawValueJson : RawValue → Json
  | .kw s => toJson s
  | .lit n => toJson n

def optStr : Option String → Json
  | none => Json.null
  | some s => toJson s

def boundJson : Option Bound → Json
  | none => Json.null
  | some .unboundedPreceding => toJson "unboundedPreceding"
  | some .unboundedFollowing => toJson "unboundedFollowing"
  | some .currentRow => toJson "currentRow"
  | some (.preceding k) => Json.mkObj [("preceding", toJson k)]
  | some (.following k) => Json.mkObj [("following", toJson k)]

def emitJson (v : SpecVal) : Json :=
  Json.mkObj [
    ("part", toJson v.part),
    ("order", Json.arr (v.order.map (fun k => Json.arr #[toJson k.name,
        match k.ordered with
        | none => Json.null
        | some (d, nf) => Json.arr #[toJson d, match nf with | none => Json.null | some b => toJson b],
        toJson k.aliased])).toArray),
    ("frame", match v.frame with
      | none => Json.null
      | some (k, f) => Json.arr #[toJson k, rawValueJson f.start, optStr f.startSide, rawValueJson f.end_, optStr f.endSide])]

def ratioJson : Option (Int × Nat) → Json
  | none => Json.null
  | some (a, b) => Json.mkObj [("q", Json.arr #[toJson a, toJson b])]

/-- the table with the window column appended, between the optional filters; expression order keys are
    evaluated as computed columns (`extend`) and projected away again -/
def evalSide (c : Case) (w : WinDef) (checkOverflow : Bool) : Json :=
  let T1 : Table := match c.pre with | none => c.table | some p => c.table.filter p
  if !keysFresh T1 c.ops then Json.mkObj [("err", toJson "bad-input: computed key column name is not fresh")] else
  let T1x := extend T1 (keyCols c.ops)
  let n := T1.cols.length
  let k := (keyCols c.ops).length
  let strip : Row → Row := fun r => r.take n ++ r.drop (n + k)
  if checkOverflow && engineOverflows T1x w then Json.mkObj [("err", toJson "overflow")] else
  let cols := T1.cols ++ [c.name]
  match c.fn, c.rfn with
  | some fn, _ =>
    let T2 := withWindowColumn T1x c.name w fn
    let T3 : Table := match c.post with | none => T2 | some p => T2.filter p
    Json.mkObj [("cols", toJson cols), ("rows", Json.arr (T3.rows.map (fun r => Json.arr ((strip r).map Val.toPlain).toArray)).toArray)]
  | none, some rfn =>
    let vs := ratioColumn T1x w rfn
    let rows := List.zipWith (fun r v => Json.arr ((r.map Val.toPlain) ++ [ratioJson v]).toArray) T1.rows vs
    Json.mkObj [("cols", toJson cols), ("rows", Json.arr rows.toArray)]
  | none, none => Json.mkObj [("err", toJson "no function")]

def handleCase (c : Case) : String :=
  let v := emit c.ops
  let model := if builderRaises genFlags c.ops then Json.mkObj [("err", toJson "IndexError")]
    else if clauseRejected v then Json.mkObj [("err", toJson "engine-rejects")] else match engineDef v with
    | none => Json.mkObj [("err", toJson "engine-rejects")]
    | some w => evalSide c w true
  let sd := sparkDef c.ops
  let spec := match sd with
    | none => Json.mkObj [("err", toJson "pyspark-raises")]
    | some w => evalSide c w false
  let accepts := match sd, c.fn with
    | some w, some fn => sparkAccepts w fn
    | some w, none => (match c.rfn with
        | some (.avg _) => sparkAccepts w (.sum "")
        | some _ => sparkAccepts w .rank
        | none => false)
    | none, _ => false
  let T1 : Table := match c.pre with | none => c.table | some p => c.table.filter p
  let T1x := extend T1 (keyCols c.ops)
  let uniq := match sd with | some w => orderUnique T1x.cols w T1x.rows | none => false
  Json.compress (Json.mkObj [
    ("case", toJson c.case),
    ("emit", emitJson v),
    ("scope", toJson (violated c.ops)),
    ("model", model),
    ("spec", spec),
    ("accepts", toJson accepts),
    ("unique", toJson uniq)])


/-! ### DataFrame chains with window items -/

structure ChainCase where
  case : Nat
  table : Table
  chain : List UStep
  deriving FromJson

def tableOrErr (e : String) : Option Table → Json
  | none => Json.mkObj [("err", toJson e)]
  | some T => T.toPlain

/-- does the value depend on the order of tied rows? -/
def tieDep (w : WinDef) : WFn → Bool
  | .rowNumber | .ntile _ | .lag .. | .lead .. | .first _ | .last _ => true
  | .rank | .denseRank => false
  | _ => match w.frame with
    | some f => decide (f.kind = .rows) && !(decide (f.lo = .unboundedPreceding) && decide (f.hi = .unboundedFollowing))
    | none => false

def itemDet (T : Table) : Item → Bool
  | .expr .. => true
  | .win _ w fn => !(tieDep w fn) || orderUnique T.cols w T.rows

def itemAcc : Item → Bool
  | .win _ w fn => sparkAccepts w fn
  | _ => true

/-- no two different rows agree on every sort key -/
def sortUnique (T : Table) (keys : List OrdKey) : Bool :=
  let tg := tagRows T.rows
  tg.all (fun a => tg.all (fun b => a.1 == b.1 || decide (a.2 = b.2) || !(decide (ordKey T.cols keys a.2 = ordKey T.cols keys b.2))))

/-- is the result determined by the data (window values not tie-dependent, LIMIT only after a total ORDER BY)? -/
def chainDet : Table → Option CStep → List CStep → Bool
  | _, _, [] => true
  | T, prev, s :: ss =>
    (match s with
     | .select items => items.all (itemDet T)
     | .withColumn it => itemDet T it
     | .limit n => decide (n ≥ T.rows.length) || (match prev with | some (.orderBy keys) => sortUnique T keys | _ => false)
     | _ => true) && chainDet (specStepW T s) (some s) ss

def stepAcc (cols : List Sqlframe.Name) : CStep → Bool
  | .select items => items.all itemAcc && decide (items.map Item.name).Nodup
  | .withColumn it => itemAcc it
  | .orderBy keys => !keys.isEmpty && keys.all (fun k => cols.contains k.name)
  | .groupAgg keys aggs => !keys.isEmpty && decide (keys ++ aggs.map (·.name)).Nodup && keys.all cols.contains &&
      aggs.all (fun a => cols.contains a.col)
  | _ => true

def chainAcc : Table → List CStep → Bool
  | _, [] => true
  | T, s :: ss => stepAcc T.cols s && chainAcc (specStepW T s) ss

def dedupStr : List String → List String
  | [] => []
  | x :: xs => x :: (dedupStr xs).filter (· != x)

def handleChain (c : ChainCase) : String :=
  let specs := progSpecs c.chain
  let msteps := resolveSteps modelResolve c.chain
  let ssteps := resolveSteps sparkDef c.chain
  let bad := specs.any (fun ops => !(keyCols ops).isEmpty)
  if bad then Json.compress (Json.mkObj [("case", toJson c.case), ("err", toJson "bad-input: expression order keys are not supported inside a chain")]) else
  let model := match msteps with
    | none => if specs.any (builderRaises genFlags) then Json.mkObj [("err", toJson "IndexError")] else Json.mkObj [("err", toJson "engine-rejects")]
    | some steps => ((WDF.init c.table).run steps).eval.toPlain
  let trace := match msteps with | none => [] | some steps => (WDF.init c.table).trace steps
  Json.compress (Json.mkObj [
    ("case", toJson c.case),
    ("model", model),
    ("spec", tableOrErr "pyspark-raises" (specChain c.table c.chain)),
    ("scope", toJson (dedupStr (specs.flatMap violated))),
    ("accepts", toJson (match ssteps with | some steps => chainAcc c.table steps | none => false)),
    ("determined", toJson (match ssteps with | some steps => chainDet c.table none steps | none => false)),
    ("trace", toJson trace)])

def handleBound (c : BoundCase) : String :=
  let r := getValueAndSide c.bound
  Json.compress (Json.mkObj [
    ("case", toJson c.case),
    ("raw", Json.arr #[rawValueJson r.1, optStr r.2]),
    ("bound", boundJson (boundOf r)),
    ("pysparkStartRows", boundJson (pysparkStart .rows c.bound)),
    ("pysparkStartRange", boundJson (pysparkStart .range c.bound)),
    ("pysparkEndRows", boundJson (pysparkEnd .rows c.bound)),
    ("pysparkEndRange", boundJson (pysparkEnd .range c.bound))])

def ordJson (v : Bool × Option Bool) : Json :=
  Json.arr #[toJson v.1, match v.2 with | none => Json.null | some b => toJson b]

def handleGen (n : Nat) : String :=
  Json.compress (Json.mkObj [
    ("case", toJson n),
    ("constants", Json.mkObj [
      ("_JAVA_MIN_LONG", toJson javaMinLong), ("_JAVA_MAX_LONG", toJson javaMaxLong),
      ("unboundedPreceding", toJson unboundedPreceding), ("unboundedFollowing", toJson unboundedFollowing),
      ("currentRow", toJson currentRow), ("sys.maxsize", toJson sysMaxsize)]),
    ("ordered", Json.mkObj (orderedTable.map (fun p => (p.1, ordJson p.2)))),
    ("kinds", Json.mkObj [("rowsBetween", toJson (rowsBetweenFrame 0 0).1), ("rangeBetween", toJson (rangeBetweenFrame 0 0).1)]),
    ("columnWrap", match orderByColumnWrap with | none => Json.null | some v => ordJson v),
    ("exprWrap", match orderByExprWrap with | none => Json.null | some v => ordJson v),
    ("flags", Json.mkObj [
      ("partitionByCopies", toJson partitionByCopies), ("orderByCopies", toJson orderByCopies),
      ("rowsBetweenCopies", toJson rowsBetweenCopies), ("rangeBetweenCopies", toJson rangeBetweenCopies),
      ("overCopies", toJson overCopies),
      ("partitionByExtends", toJson partitionByExtends), ("orderByExtends", toJson orderByExtends),
      ("partitionByIndexesFirst", toJson partitionByIndexesFirst), ("orderByIndexesFirst", toJson orderByIndexesFirst),
      ("partitionByKeepsAlias", toJson partitionByKeepsAlias), ("orderByKeepsAlias", toJson orderByKeepsAlias)]),
    ("chain", Json.mkObj [
      ("withColumnViaWrapped", toJson Gen.WinChain.withColumnViaWrapped),
      ("withColumnsExistingInPlace", toJson Gen.WinChain.withColumnsExistingInPlace),
      ("withColumnsNewAtEnd", toJson Gen.WinChain.withColumnsNewAtEnd),
      ("withColumnsSelectViaWrapped", toJson Gen.WinChain.withColumnsSelectViaWrapped),
      ("convertLeafFreshSelect", toJson Gen.WinChain.convertLeafFreshSelect),
      ("whereIntoHandedBlock", toJson Gen.WinChain.whereIntoHandedBlock)]),
    ("tags", Json.mkObj ([("where", Gen.tag_where), ("filter", Gen.tag_filter), ("select", Gen.tag_select),
        ("withColumn", Gen.tag_withColumn), ("withColumns", Gen.tag_withColumns), ("distinct", Gen.tag_distinct),
        ("orderBy", Gen.tag_orderBy), ("limit", Gen.tag_limit)].map (fun p =>
          (p.1, match p.2 with | none => Json.null | some op => toJson op.toInt)))),
    ("pyspark", Json.mkObj [("longMin", toJson longMin), ("longMax", toJson longMax), ("edgeStart", toJson edgeStart)])])

def handle (line : String) : String :=
  match Json.parse line with
  | .error e => Json.compress (Json.mkObj [("err", toJson s!"bad-input: {e}")])
  | .ok j =>
    match j.getObjVal? "chain" with
    | .ok _ =>
      (match fromJson? (α := ChainCase) j with
       | .ok c => handleChain c
       | .error e => Json.compress (Json.mkObj [("err", toJson s!"bad-input: {e}")]))
    | .error _ =>
    match j.getObjVal? "gen", j.getObjVal? "bound" with
    | .ok _, _ => handleGen ((j.getObjValAs? Nat "case").toOption.getD 0)
    | _, .ok _ =>
      (match fromJson? (α := BoundCase) j with
       | .ok c => handleBound c
       | .error e => Json.compress (Json.mkObj [("err", toJson s!"bad-input: {e}")]))
    | _, .error _ =>
      (match fromJson? (α := Case) j with
       | .ok c => handleCase c
       | .error e => Json.compress (Json.mkObj [("err", toJson s!"bad-input: {e}")]))

partial def loop (h : IO.FS.Stream) (out : IO.FS.Stream) : IO Unit := do
  let line ← h.getLine
  if line.isEmpty then return ()
  if line.trimAscii.isEmpty then loop h out else
  out.putStrLn (handle line)
  loop h out

def main : IO Unit := do
  let out ← IO.getStdout
  loop (← IO.getStdin) out
