/-
Driver/C07.lean — line-protocol driver for C07 (set operations).
in : {"case": n, "env": [Table], "prog": Prog}
out: {"case": n, "wf": bool, "model": table | {"err": exception class}, "spec": table, "scope": [violated hypothesis names]}
in : {"gen": true}
out: {"table": [[method, kind, distinct]], "aliases": [[alias, target]], "tags": [[method, tag]], "byNameOp": [kind, distinct]}
in : {"byname": {"l": [names], "r": [names], "am": bool}}
out: {"l": [[kind, name]], "r": [[kind, name]]}          -- the generated list programs of unionByName
Pure function of its input lines.  Evaluates the same definitions the theorems of Props/C07.lean are about.
-/
import SqlframeModel.Codec.C07
open Lean Sqlframe Sqlframe.Gen

structure Case where
  case : Nat
  env : List Table
  prog : Prog
  deriving FromJson

structure ByName where
  l : List String
  r : List String
  am : Bool
  deriving FromJson

def kindStr : SetKind → String
  | .union => "Union" | .intersect => "Intersect" | .except_ => "Except"

def itemJson : PItem → Json
  | .own n => toJson ["own", n]
  | .null n => toJson ["null", n]

def handleCase (c : Case) : String :=
  let model : Json := match c.prog.runM c.env with
    | some st => st.df.eval.toPlain
    | none => Json.mkObj [("err", toJson "AttributeError")]
  Json.compress (Json.mkObj [
    ("case", toJson c.case),
    ("wf", toJson (decide (c.prog.WF c.env))),
    ("model", model),
    ("spec", (c.prog.spec c.env).toPlain),
    ("scope", toJson (violatedC07 c.prog))])

def handleGen : String :=
  Json.compress (Json.mkObj [
    ("table", Json.arr (setOpTable.map (fun e => Json.arr #[toJson e.1, toJson (kindStr e.2.1), toJson e.2.2])).toArray),
    ("aliases", Json.arr (setOpAliases.map (fun e => toJson [e.1, e.2])).toArray),
    ("tags", Json.arr (SetMethod.all.map (fun m => Json.arr #[toJson m.name, toJson (reprStr m.tag)])).toArray),
    ("byNameTag", toJson (reprStr tag_unionByName)),
    ("cteDedupAssumesSelect", toJson cteDedupAssumesSelect),
    ("byNameOp", Json.arr #[toJson (kindStr byNameOp.1), toJson byNameOp.2])])

def handleByName (b : ByName) : String :=
  let l := b.l.map PItem.own
  let r := b.r.map PItem.own
  let st := if b.am then byNameMissing l r else byNameStrict l r
  Json.compress (Json.mkObj [
    ("l", Json.arr (st.l_expressions.map itemJson).toArray),
    ("r", Json.arr (st.r_expressions.map itemJson).toArray)])

def handle (line : String) : String :=
  match Json.parse line with
  | .error e => Json.compress (Json.mkObj [("err", toJson s!"bad-json: {e}")])
  | .ok j =>
    if (j.getObjVal? "gen").isOk then handleGen
    else match j.getObjVal? "byname" with
    | .ok b =>
      match fromJson? (α := ByName) b with
      | .ok b => handleByName b
      | .error e => Json.compress (Json.mkObj [("err", toJson s!"bad-input: {e}")])
    | .error _ =>
      match fromJson? (α := Case) j with
      | .ok c => handleCase c
      | .error e => Json.compress (Json.mkObj [("err", toJson s!"bad-input: {e}")])

partial def loop (h : IO.FS.Stream) (out : IO.FS.Stream) : IO Unit := do
  let line ← h.getLine
  if line.isEmpty then return ()
  if line.trimAscii.isEmpty then loop h out else
  out.putStrLn (handle line)
  loop h out

def main : IO Unit := do
  let out ← IO.getStdout
  loop (← IO.getStdin) out
