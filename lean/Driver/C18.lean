/-
Driver/C18.lean — line-protocol driver for C18 histories.
in : {"case": n, "events": [CEv], "heap": [[identifier]] (the Column objects the user holds), "chain": [TCte] (optional)}
out: {"case": n, "full": [obs], "own": [obs], "scope": [violated hypothesis names],
      "sessions": [registry snapshot after every step event of the full run],
      "heaps": [the heap after every apply / edit event of the full run], "heapOwn": the heap after P alone,
      "rehash": [[name, reads]] }
`full` = what P observes along the interleaving, `own` = what it observes alone (the definitions the C18
theorems are about).  Pure function of its input lines.
-/
import SqlframeModel.Codec.C18
open Lean Sqlframe Sqlframe.Sess

structure Case where
  case : Nat
  events : List CEv
  heap : Heap := []
  chain : List TCte := []
  deriving FromJson

def obsJson : Obs → Json
  | .ident n => Json.mkObj [("ident", toJson n)]
  | .raised => Json.mkObj [("raised", toJson true)]
  | .viewCols cs => Json.mkObj [("cols", match cs with | some l => toJson l | none => Json.null)]
  | .resolved ts => Json.mkObj [("resolved", Json.arr (ts.map (fun t => match t with | some n => toJson n | none => Json.null)).toArray)]
  | .state ts => Json.mkObj [("state", toJson ts)]

def snap (σ : Session) : Json :=
  Json.mkObj [("known", toJson σ.knownIds), ("branch", toJson σ.branchIds), ("seq", toJson σ.seqIds),
    ("alias", toJson σ.aliasMap), ("counter", toJson σ.counter), ("catalog", toJson σ.catalogObjects),
    ("engineTemp", toJson σ.engineTemp), ("cols", toJson σ.catalogCols)]

def sessions (σ : Session) : List CEv → List Json
  | [] => []
  | .base (.step _ st) :: r => let σ' := applyStep σ st; snap σ' :: sessions σ' r
  | _ :: r => sessions σ r

def drvHash (s : String) : String := "t" ++ toString (s.foldl (fun h c => (h * 131 + c.toNat) % 100000007) 7)

def viewObs : List Obs → List Obs := List.filter (fun o => match o with | .viewCols _ => true | _ => false)

def handle (line : String) : String :=
  match Json.parse line >>= fromJson? (α := Case) with
  | .error e => Json.compress (Json.mkObj [("err", toJson s!"bad-input: {e}")])
  | .ok c =>
    let full := outsC Copying.real Session.fresh c.heap c.events
    let own := outsC Copying.real Session.fresh c.heap (onlyOwnC c.events)
    let low := lower c.heap c.events
    let scope : List String :=
      (if idsFresh low (foreignIds low) then [] else ["H_idsFresh"])
      ++ (if ctesHaveIds low then [] else ["H_ctesHaveIds"])
      ++ (if viewObs full = viewObs own then [] else ["H_viewColumnsStable"])
      ++ (if viewsOwn low (foreignLookups low) then [] else ["H_tableLookupsOwn"])
    let rh := rehash drvHash Gen.sessHashParts c.chain
    let rhErased := rehash drvHash Gen.sessHashParts (c.chain.map TCte.eraseIds)
    Json.compress (Json.mkObj [
      ("case", toJson c.case),
      ("full", Json.arr (full.map obsJson).toArray),
      ("own", Json.arr (own.map obsJson).toArray),
      ("scope", toJson scope),
      ("sessions", Json.arr (sessions Session.fresh c.events).toArray),
      ("heaps", toJson (heapsC Copying.real Session.fresh c.heap c.events)),
      ("heapOwn", toJson (heapAfter Copying.real Session.fresh c.heap (onlyOwnC c.events))),
      ("rehash", toJson (rh.map (fun x => (x.1, x.2.2.1)))),
      ("rehashIgnoresIds", toJson (decide (rh = rhErased)))])

partial def loop (h : IO.FS.Stream) (out : IO.FS.Stream) : IO Unit := do
  let line ← h.getLine
  if line.isEmpty then return ()
  if line.trimAscii.isEmpty then loop h out else
  out.putStrLn (handle line)
  loop h out

def main : IO Unit := do
  let out ← IO.getStdout
  loop (← IO.getStdin) out
