/-
Driver/C14.lean — line-protocol driver for C14.
in : {"case": n, "ops": [Op]}                      a history of table writes / reads / drops
   | {"case": n, "pops": [{"p","arg","st","f"}]}    a history of path writes
   | {"case": n, "opt": {fmt, wnamed, rcalls, rnamed, via, schema}}   one write + one read with options:
        out {"opt": {w_model, w_spec, w_scope, r_model, r_spec, r_scope, …}} (option lists of the statements)
out: {"case": n, "steps": [{"model": {ok,out}, "mcat": [[name,table]], "cache": [[name,[col]]],
                            "spec": {ok,out}, "scat": [[name,table]], "scope": [names],
                            "exists": bool, "tables": [names], "columns": [[name,ty]]}]}
   | {"case": n, "psteps": [{"model": res, "mfs": cat, "spec": res|null, "sfs": cat, "scope": [names]}]}
The model side evaluates `C14.step` / `C14.pathStep` (the definitions the theorems are about), the
specification side `C14.specStep` / `C14.specPath`; each from its own previous state.
Pure function of its input lines.
-/
import SqlframeModel.Codec.C14
open Lean Sqlframe Sqlframe.C14

structure POp where
  p : String
  arg : Option String
  st : Option String
  f : Frame
  deriving FromJson

/-- a table call as the check sends it: the builder chain is spelled out and folded by `C14.writerState` -/
inductive OpIn
  | save (n : String) (calls : List Call) (arg : Option String) (f : Frame)    -- df.write.<calls>.saveAsTable(n, mode=arg)
  | insertInto (n : String) (calls : List Call) (f : Frame)                    -- df.write.<calls>.insertInto(n)
  | read (n : String)
  | drop (n : String)
  deriving FromJson

def OpIn.toOp : OpIn → Op
  | .save n calls arg f => .save n arg (writerState calls).mode f
  | .insertInto n calls f => .insertInto n (writerState calls).byName f
  | .read n => .read n
  | .drop n => .drop n

/-- the same call read by the specification -/
def OpIn.toSpecOp : OpIn → Op
  | .save n calls arg f => .save n arg (specChain calls).mode f
  | .insertInto n calls f => .insertInto n (specChain calls).byName f
  | .read n => .read n
  | .drop n => .drop n

/-- one write with options followed by one read with options -/
structure OptCase where
  fmt : String
  wnamed : Opts                    -- keyword arguments of df.write.<fmt>(path, …)
  rcalls : List RCall              -- builder calls on session.read
  rnamed : Opts                    -- keyword arguments of the read call
  via : Via
  schema : Option String := none   -- the `columns` text of the schema given to the read, if any
  deriving FromJson

structure Case where
  case : Nat
  ops : Option (List OpIn) := none
  pops : Option (List POp) := none
  opt : Option OptCase := none
  gen : Option Bool := none
  deriving FromJson

def optScope (vals : List Gen.OptVal) : List String :=
  if H_optionValueQuoted vals then [] else ["H_optionValueQuoted"]

def optCaseJson (c : OptCase) : Json :=
  let fl := genRFlags c.fmt
  let namedOk : Bool := decide ((keys c.rnamed).Nodup) && c.rnamed.all (fun e => !e.2.isNone) &&
    (c.via != Via.method || !fl.call.isSome || (keys c.rnamed).all (fun k => (Gen.readerParams c.fmt).contains k))
  Json.mkObj [
    ("w_model", renderedJson (writerRendered c.fmt c.wnamed)),
    ("w_spec", optsPlain (specWriterOpts c.fmt (Gen.writerParams c.fmt) c.wnamed)),
    ("w_scope", toJson (optScope (c.wnamed.map (·.2)))),
    ("r_model", renderedJson (readerRendered c.fmt c.via c.rcalls c.rnamed c.schema "<inferred>")),
    ("r_spec", optsPlain (specReaderOpts Gen.loadPops (Gen.loadColumnsFor.contains c.fmt) c.rcalls c.rnamed c.schema)),
    ("r_scope", toJson (optScope (rcallVals c.rcalls ++ c.rnamed.map (·.2)) ++ (if namedOk then [] else ["D_readerArguments"]))),
    ("write_eq", toJson Gen.duckWriteEq), ("read_eq", toJson Gen.loadEq), ("join", toJson Gen.toCsvJoin)]

def optS : List (Option String) := [none, some "error", some "errorifexists", some "ignore", some "overwrite", some "append", some "bogus"]

def fileFormats : List String := ["csv", "json", "parquet"]
def optSamples : List Gen.OptVal := [.none, .bool true, .bool false, .str "", .str "x", .int 0, .int 3]

/-- the regenerated decisions, printed so that the check can compare them with the live objects -/
def genDump : Json :=
  let keys := Gen.saveModeKeys ++ ["bogus"]
  Json.mkObj [
    ("saveAction", Json.arr (keys.flatMap (fun k => [true, false].map (fun ex =>
        Json.arr #[toJson k, toJson ex, toJson (reprStr (Gen.saveAction k ex))]))).toArray),
    ("effectiveMode", Json.arr (optS.flatMap (fun a => optS.map (fun s =>
        Json.arr #[toJson a, toJson s, toJson (Gen.effectiveMode a s)]))).toArray),
    ("pathMode", Json.arr (optS.flatMap (fun a => optS.map (fun s =>
        Json.arr #[toJson a, toJson s, toJson (Gen.pathMode a s)]))).toArray),
    ("validateMode", Json.arr (keys.flatMap (fun k => [true, false].map (fun ex =>
        Json.arr #[toJson k, toJson ex, toJson (reprStr (Gen.validateMode k ex))]))).toArray),
    ("flags", Json.mkObj [("byNameReorders", toJson Gen.byNameReorders), ("byNameSource", toJson (reprStr Gen.byNameSource)),
      ("insertPassesOverwrite", toJson Gen.insertPassesOverwrite), ("insertExecutes", toJson Gen.insertExecutes),
      ("fileValidatesFirst", toJson Gen.fileValidatesFirst), ("fileAppendRaises", toJson Gen.fileAppendRaises),
      ("addTableSkipsWhenCached", toJson Gen.addTableSkipsWhenCached), ("tableSelectsCachedColumns", toJson Gen.tableSelectsCachedColumns)]),
    ("options", Json.mkObj [
      ("toCsvKeeps", Json.arr (optSamples.map (fun v => Json.arr #[optValPlain v, toJson (Gen.toCsvKeeps v)])).toArray),
      ("writerParams", Json.mkObj (fileFormats.map (fun f => (f, toJson (Gen.writerParams f))))),
      ("writerCall", Json.mkObj (fileFormats.map (fun f => (f, Json.arr ((Gen.writerCall f).map (fun e => Json.arr #[toJson e.1, toJson (reprStr e.2)])).toArray)))),
      ("readerParams", Json.mkObj (fileFormats.map (fun f => (f, toJson (Gen.readerParams f))))),
      ("readerKeeps", Json.mkObj (fileFormats.map (fun f => (f, Json.arr (optSamples.map (fun v => Json.arr #[optValPlain v, toJson (Gen.readerKeeps f v)])).toArray)))),
      ("readerMerge", Json.mkObj (fileFormats.map (fun f => (f, toJson ((Gen.readerMerge f).map reprStr))))),
      ("loadMerge", toJson (Gen.loadMerge.map reprStr)), ("optionsMerge", toJson (Gen.optionsMerge.map reprStr)),
      ("loadPops", toJson Gen.loadPops), ("loadColumnsFor", toJson Gen.loadColumnsFor),
      ("loadReloadsWithSchema", toJson Gen.loadReloadsWithSchema),
      ("duckWriteEq", toJson Gen.duckWriteEq), ("loadEq", toJson Gen.loadEq), ("toCsvJoin", toJson Gen.toCsvJoin)])]

def opName : Op → String
  | .save n _ _ _ => n | .insertInto n _ _ => n | .read n => n | .drop n => n

def tableSteps : List OpIn → St → Cat → List Json → List Json
  | [], _, _, acc => acc.reverse
  | oi :: os, st, sc, acc =>
    let o := oi.toOp
    let m := step o st
    let s := specStep oi.toSpecOp sc
    let n := opName o
    let j := Json.mkObj [
      ("model", resJson m.2), ("mcat", catJson m.1.cat),
      ("cache", Json.arr (m.1.cache.map (fun e => Json.arr #[toJson e.1, toJson e.2])).toArray),
      ("spec", resJson s.2), ("scat", catJson s.1),
      ("scope", toJson (violated o st)),
      ("exists", toJson (tableExists m.1 n)),
      ("tables", toJson (listTables m.1)),
      ("columns", Json.arr ((listColumns m.1 n).map (fun e => Json.arr #[toJson e.1, tyJson e.2])).toArray)]
    tableSteps os m.1 s.1 (j :: acc)

def pathScope (o : POp) (m : Option Mode) : List String :=
  (if H_pathModeFromState Gen.pathMode o.arg o.st then [] else ["H_pathModeFromState"]) ++
  (match m with
   | none => ["D_unknownMode"]
   | some m => if D_fileAppend m then [] else ["D_fileAppend"])

def pathSteps : List POp → Cat → Cat → List Json → List Json
  | [], _, _, acc => acc.reverse
  | o :: os, fs, sfs, acc =>
    let m := pathStep o.p o.arg o.st o.f fs
    let sm := specMode o.arg o.st
    let s : Cat × Option PathRes := match sm with
      | some md => let r := specPath md o.p o.f sfs; (r.1, some r.2)
      | none => (sfs, none)
    let j := Json.mkObj [
      ("model", pathResJson m.2), ("mfs", catJson m.1),
      ("spec", match s.2 with | some r => pathResJson r | none => Json.null), ("sfs", catJson s.1),
      ("scope", toJson (pathScope o sm))]
    pathSteps os m.1 s.1 (j :: acc)

def handle (line : String) : String :=
  match Json.parse line >>= fromJson? (α := Case) with
  | .error e => Json.compress (Json.mkObj [("err", toJson s!"bad-input: {e}")])
  | .ok c =>
    if c.gen = some true then Json.compress (Json.mkObj [("case", toJson c.case), ("gen", genDump)]) else
    match c.opt with
    | some oc => Json.compress (Json.mkObj [("case", toJson c.case), ("opt", optCaseJson oc)])
    | none =>
    match c.ops, c.pops with
    | some ops, _ => Json.compress (Json.mkObj [("case", toJson c.case), ("steps", Json.arr (tableSteps ops { cat := [] } [] []).toArray)])
    | none, some pops => Json.compress (Json.mkObj [("case", toJson c.case), ("psteps", Json.arr (pathSteps pops [] [] []).toArray)])
    | none, none => Json.compress (Json.mkObj [("err", toJson "no ops")])

partial def loop (h : IO.FS.Stream) (out : IO.FS.Stream) : IO Unit := do
  let line ← h.getLine
  if line.isEmpty then return ()
  if line.trimAscii.isEmpty then loop h out else
  out.putStrLn (handle line)
  loop h out

def main : IO Unit := do
  let out ← IO.getStdout
  loop (← IO.getStdin) out
