/-
Driver/C17.lean — line-protocol driver for C17.
in : {"case": n, "op": <name>, …operands…}
out: {"case": n, "emul": value the emulation gives (model), "spec": Spark's value (specification),
      "scope": [violated hypothesis names]}            for the emulation ops
     {"case": n, "prim": value}                         for the engine-primitive ops (`duck_*`)
     {"case": n, "shape": text}                         for the argument-order ops
Evaluates the same definitions the theorems are about.
-/
import SqlframeModel.Codec.C17
open Lean Sqlframe Sqlframe.C17 Sqlframe.Gen.Emul

def out3 (c : Nat) (e s : Json) (scope : List String) : String :=
  Json.compress (Json.mkObj [("case", toJson c), ("emul", e), ("spec", s), ("scope", toJson scope)])

def outP (c : Nat) (p : Json) : String := Json.compress (Json.mkObj [("case", toJson c), ("prim", p)])

def scopeIf (violated : Bool) (name : String) : List String := if violated then [name] else []

def symStrpos (this substr : String) (pos : Option String) : String :=
  s!"StrPosition(this={this}, substr={substr}" ++ (match pos with | some p => s!", position={p})" | none => ")")

def symPad (isLeft : Bool) (this : String) (n : Int) (fill : String) : String :=
  s!"Pad(this={this}, expression={n}, fill_pattern={fill}, is_left={isLeft})"

def handle (line : String) : String :=
  match Json.parse line >>= fromJson? (α := Req) with
  | .error e => Json.compress (Json.mkObj [("err", toJson s!"bad-input: {e}")])
  | .ok r =>
    let xs := r.xs.getD []
    let g (o : Option Int) : Int := o.getD 0
    match r.op with
    | "factorial" =>
      let n := g r.n
      out3 r.case (optNat (if 0 ≤ n then emulFactorial n.toNat else none)) (optNat (sparkFactorial n)) []
    | "factorial_case" =>
      let n := g r.n
      out3 r.case (optNat (emulFactorialCase n.toNat)) (optNat (sparkFactorial n)) []
    | "element_at" => out3 r.case (optInt (emulElementAt xs (g r.k))) (optInt (sparkElementAt xs (g r.k))) []
    | "try_element_at" => out3 r.case (optInt (emulTryElementAt xs (g r.k))) (optInt (sparkElementAt xs (g r.k))) []
    | "getItem" => out3 r.case (optInt (emulGetItem xs (g r.k))) (optInt (sparkGetItem xs (g r.k))) []
    | "slice" =>
      out3 r.case (ints (emulSlice xs (g r.s) (g r.l))) (ints (sparkSlice xs (g r.s) (g r.l)))
        (scopeIf (!decide H_sliceEnd) "H_sliceEnd" ++ scopeIf (!decide (H_sliceNegativeStart xs.length (g r.s) (g r.l))) "H_sliceNegativeStart")
    | "array_position" =>
      out3 r.case (optInt (emulArrayPosition r.xs (g r.v))) (optInt (sparkArrayPosition r.xs (g r.v)))
        (scopeIf (!decide (H_arrayPositionNullArray r.xs)) "H_arrayPositionNullArray")
    | "sequence" =>
      out3 r.case (ints (emulSequence (g r.a) (g r.b) r.step)) (ints (sparkSequence (g r.a) (g r.b) r.step))
        (scopeIf (!decide (H_sequenceDefaultStep (g r.a) (g r.b) r.step)) "H_sequenceDefaultStep")
    | "rint" =>
      out3 r.case (toJson (emulRint (g r.n) (g r.d))) (toJson (sparkRint (g r.n) (g r.d)))
        (scopeIf (!decide (H_rintTies (g r.n) (g r.d))) "H_rintTies")
    | "overlay" =>
      let s := (r.str.getD "").toList
      let rp := (r.rep.getD "").toList
      out3 r.case (toJson (String.ofList (emulOverlay s rp (g r.pos) r.len))) (toJson (String.ofList (sparkOverlay s rp (g r.pos) r.len))) []
    | "date_add" => out3 r.case (toJson (emulDateAdd (g r.d) (g r.n))) (toJson (sparkDateAdd (g r.d) (g r.n))) []
    | "date_sub" => out3 r.case (toJson (emulDateSub (g r.d) (g r.n))) (toJson (sparkDateSub (g r.d) (g r.n))) []
    | "array_min" => out3 r.case (optInt (emulArrayMinSorted xs)) (optInt xs.min?) []
    | "array_max" => out3 r.case (optInt (emulArrayMaxSorted xs)) (optInt xs.max?) []
    | "soundex" =>
      let cs := (r.str.getD "").toList.map Char.toNat
      let dec (l : List Nat) : String := String.ofList (l.map Char.ofNat)
      out3 r.case (toJson (dec (emulSoundexN cs))) (toJson (dec (sparkSoundexN cs)))
        (scopeIf (!(soundexFirstLetterB cs) && !cs.isEmpty) "H_soundexFirstLetter")
    | "levenshtein" =>
      let d : Option Int := match r.str, r.rep with
        | some a, some b => some (duckLevenshtein a.toList b.toList : Nat)
        | _, _ => none
      out3 r.case (optInt (emulLevenshtein d r.k)) (optInt (sparkLevenshtein d r.k))
        (scopeIf (!decide (H_levenshteinNullInput d r.k)) "H_levenshteinNullInput")
    | "format_string" =>
      let fmt := (r.str.getD "").toList
      let cols := (r.strs.getD []).map String.toList
      out3 r.case (optStr ((emulFormat fmt cols).map String.ofList)) (optStr ((sparkFormat fmt cols).map String.ofList))
        (scopeIf (!decide (H_formatPlainPlaceholders fmt cols)) "H_formatPlainPlaceholders")
    | "split_fmt" => outP r.case (toJson ((splitFmt (r.str.getD "").toList).map String.ofList))
    | "nanvl" =>
      let nan : String → Bool := fun s => s == "nan"
      let c1 := ((r.ostrs.getD [])[0]?).join
      let c2 := ((r.ostrs.getD [])[1]?).join
      out3 r.case (optStr (emulNanvl nan c1 c2)) (optStr (sparkNanvl nan c1 c2)) (scopeIf (!decide (H_nanvlNullInput c1)) "H_nanvlNullInput")
    | "dayofweek" => out3 r.case (toJson (emulDayOfWeek (g r.d))) (toJson (sparkDayOfWeek (g r.d))) []
    | "prog" =>
      let steps := (r.prog.getD []).map PStep.toStep
      if steps.any Option.isNone then Json.compress (Json.mkObj [("case", toJson r.case), ("unmodelled", toJson true)])
      else
        let prog := steps.filterMap id
        let rows := r.rows.getD []
        out3 r.case (table (evalAll (hrun prog).view rows)) (table (evalAll (prun prog) rows)) []
    | "compose_consts" =>
      Json.compress (Json.mkObj [("case", toJson r.case),
        ("whenCopiesReceiver", toJson whenCopiesReceiver), ("otherwiseCopiesReceiver", toJson otherwiseCopiesReceiver),
        ("columnSelfWriters", toJson columnSelfWriters), ("columnApi", toJson columnApi)])
    | "duck_levenshtein" => outP r.case (toJson (duckLevenshtein (r.str.getD "").toList (r.rep.getD "").toList))
    | "duck_dayofweek" => outP r.case (toJson (duckDayOfWeek (g r.d)))
    | "duck_factorial" => outP r.case (toJson (duckFactorial (g r.n).toNat))
    | "duck_index" => outP r.case (optInt (duckIndex xs (g r.k)))
    | "duck_list_slice" => outP r.case (ints (duckListSlice xs (g r.a) (g r.b)))
    | "duck_list_position" => outP r.case (optNat (duckListPosition xs (g r.v)))
    | "duck_generate_series" => outP r.case (ints (duckGenerateSeries (g r.a) (g r.b) (g r.step)))
    | "duck_round0" => outP r.case (toJson (duckRound0 (g r.n) (g r.d)))
    | "duck_substring" => outP r.case (toJson (String.ofList (duckSubstring (r.str.getD "").toList (g r.pos) (g r.len))))
    | "shape_locate" =>
      Json.compress (Json.mkObj [("case", toJson r.case), ("shape", toJson (emulLocate (γ := String) symStrpos "?" "<substr>" "<str>" (r.pos.map (fun _ => "<pos>"))))])
    | "shape_instr" =>
      Json.compress (Json.mkObj [("case", toJson r.case), ("shape", toJson (emulInstr (γ := String) (fun a b => symStrpos a b none) "?" "<col>" "<substr>"))])
    | "shape_lpad" =>
      Json.compress (Json.mkObj [("case", toJson r.case), ("shape", toJson (emulPad symPad lpadThis lpadLength lpadFill lpadIsLeft "?" "<col>" (g r.len) "<pad>"))])
    | "shape_rpad" =>
      Json.compress (Json.mkObj [("case", toJson r.case), ("shape", toJson (emulPad symPad rpadThis rpadLength rpadFill rpadIsLeft "?" "<col>" (g r.len) "<pad>"))])
    | "dispatch" =>
      Json.compress (Json.mkObj [("case", toJson r.case), ("rows", toJson (dispatch.filter (fun x => x.2.1 == "duckdb"))),
        ("unaccounted", toJson ((dispatch.filter (fun x => !duckRowOk x)).map (·.1)))])
    | other => Json.compress (Json.mkObj [("case", toJson r.case), ("err", toJson s!"unknown op {other}")])

partial def loop (h : IO.FS.Stream) (out : IO.FS.Stream) : IO Unit := do
  let line ← h.getLine
  if line.isEmpty then return ()
  if line.trimAscii.isEmpty then loop h out else
  out.putStrLn (handle line)
  loop h out

def main : IO Unit := do
  let out ← IO.getStdout
  loop (← IO.getStdin) out
