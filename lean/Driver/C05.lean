/-
Driver/C05.lean — line-protocol driver for C05.
in : {"case": n, "e": PyExpr, "cols": [{"n": name, "pool": [Val]}]}
out: {"case": n,
      "build":  s-expression of `build theCfg e`            (what `Column.expression` must be),
      "wellParen": Bool, "scope": [violated hypothesis names],
      "engine": s-expression of the tree the engine evaluates | null (syntax error), "fnsOK": Bool,
      "litsOK": Bool (every literal's text is a literal to the engine), "sitesOK": Bool (raw operands are tagged with their position),
      "spec":  [denote e row]      over the cartesian product of the pools (first column slowest),
      "model": [engineValue row]   (null entries as {"err": true} when the engine raises)}
Pure function of its input lines; evaluates the definitions the theorems of Props/C05.lean are about.
-/
import SqlframeModel.Codec.C05
open Lean Sqlframe Sqlframe.C05

structure ColPool where
  n : String
  pool : List CVal
  deriving FromJson

structure Case where
  case : Nat
  e : PyExpr
  cols : List ColPool
  deriving FromJson

def rowsOf : List ColPool → List (List (String × CVal))
  | [] => [[]]
  | c :: cs => c.pool.flatMap fun v => (rowsOf cs).map fun r => (c.n, v) :: r

def envOf (r : List (String × CVal)) : Env := fun n =>
  match r.find? (fun kv => kv.1 == n) with
  | some kv => kv.2
  | none => .null

def handle (line : String) : String :=
  match Json.parse line >>= fromJson? (α := Case) with
  | .error e => Json.compress (Json.mkObj [("err", toJson s!"bad-input: {e}")])
  | .ok c =>
    let t := build theCfg c.e
    let rows := rowsOf c.cols
    let eng := engineTop t
    let spec := rows.map fun r => (denote (envOf r) c.e).toPlain
    let model := rows.map fun r =>
      match engineValue (envOf r) t with
      | some v => v.toPlain
      | none => Json.mkObj [("err", toJson true)]
    Json.compress (Json.mkObj [
      ("case", toJson c.case),
      ("build", t.toSexp),
      ("wellParen", toJson (wellParenTop t)),
      ("scope", toJson (violated theCfg c.e)),
      ("engine", match eng with | some t' => t'.toSexp | none => Json.null),
      ("fnsOK", toJson (match eng with | some t' => fnsOK t' | none => fnsOK t)),
      ("litsOK", toJson (match eng with | some t' => litsOK t' | none => litsOK t)),
      ("sitesOK", toJson (sitesOK c.e)),
      ("spec", Json.arr spec.toArray),
      ("model", Json.arr model.toArray)])

partial def loop (h : IO.FS.Stream) (out : IO.FS.Stream) : IO Unit := do
  let line ← h.getLine
  if line.isEmpty then return ()
  if line.trimAscii.isEmpty then loop h out else
  out.putStrLn (handle line)
  loop h out

def main : IO Unit := do
  let out ← IO.getStdout
  loop (← IO.getStdin) out
