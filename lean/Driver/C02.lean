/-
Driver/C02.lean — line-protocol driver for C02 (joins).
in : {"case": n, "prog": [FrameDef]}
out: {"case": n, "model": table | null, "spec": table | null, "scope": [violated hypothesis names]}
      (model null = the implementation raises; spec null = PySpark rejects the program)
in : {"case": n, "merge": {"existing": [NCte], "ctes": [NCte]}}
out: {"case": n, "merged": [[name, [names read]]]}     `mergeCtes` (Impl/C02Ctes.lean) with the fresh names "#0", "#1", …
in : {"case": n, "names": [String]}
out: {"case": n, "quoted": [String]}                    `quoteName` (Impl/C02Join.lean)
Pure function of its input lines; evaluates `runImpl` / `runSpec` / `mergeCtes` / `quoteName`, the definitions
Props/C02.lean is about.
-/
import SqlframeModel.Codec.C02
open Lean Sqlframe

structure Case where
  case : Nat
  prog : List FrameDef
  deriving FromJson

structure MergeIn where
  existing : List NCte
  ctes : List NCte
  deriving FromJson

structure MergeCase where
  case : Nat
  merge : MergeIn
  deriving FromJson

structure NamesCase where
  case : Nat
  names : List String
  deriving FromJson

def optTable : Option Table → Json
  | none => Json.null
  | some T => T.toPlain

def handleProg (c : Case) : String :=
  let m := runImpl c.prog
  let s := runSpec c.prog
  Json.compress (Json.mkObj [
    ("case", toJson c.case),
    ("model", optTable m.result),
    ("spec", optTable s),
    ("scope", toJson m.flags)])

def handleMerge (c : MergeCase) : String :=
  let out := mergeCtes (fun k => "#" ++ toString k) c.merge.existing c.merge.ctes
  Json.compress (Json.mkObj [
    ("case", toJson c.case),
    ("merged", toJson (out.map (fun x => (x.name, x.body.refs))))])

def handle (line : String) : String :=
  match Json.parse line with
  | .error e => Json.compress (Json.mkObj [("err", toJson s!"bad-input: {e}")])
  | .ok j =>
    if (j.getObjVal? "merge").isOk then
      match fromJson? (α := MergeCase) j with
      | .ok c => handleMerge c
      | .error e => Json.compress (Json.mkObj [("err", toJson s!"bad-input: {e}")])
    else if (j.getObjVal? "names").isOk then
      match fromJson? (α := NamesCase) j with
      | .ok c => Json.compress (Json.mkObj [("case", toJson c.case), ("quoted", toJson (c.names.map quoteName))])
      | .error e => Json.compress (Json.mkObj [("err", toJson s!"bad-input: {e}")])
    else
      match fromJson? (α := Case) j with
      | .ok c => handleProg c
      | .error e => Json.compress (Json.mkObj [("err", toJson s!"bad-input: {e}")])

partial def loop (h : IO.FS.Stream) (out : IO.FS.Stream) : IO Unit := do
  let line ← h.getLine
  if line.isEmpty then return ()
  if line.trimAscii.isEmpty then loop h out else
  out.putStrLn (handle line)
  loop h out

def main : IO Unit := do
  let out ← IO.getStdout
  loop (← IO.getStdin) out
