/-
Driver/C02.lean — line-protocol driver for C02 (joins).
in : {"case": n, "prog": [FrameDef]}
out: {"case": n, "model": table | null, "spec": table | null, "scope": [violated hypothesis names],
      "how": {...}}   (model null = the implementation raises; spec null = PySpark rejects the program)
Pure function of its input lines; evaluates `runImpl` / `runSpec`, the definitions Props/C02.lean is about.
-/
import SqlframeModel.Codec.C02
open Lean Sqlframe

structure Case where
  case : Nat
  prog : List FrameDef
  deriving FromJson

def optTable : Option Table → Json
  | none => Json.null
  | some T => T.toPlain

def handle (line : String) : String :=
  match Json.parse line >>= fromJson? (α := Case) with
  | .error e => Json.compress (Json.mkObj [("err", toJson s!"bad-input: {e}")])
  | .ok c =>
    let m := runImpl c.prog
    let s := runSpec c.prog
    Json.compress (Json.mkObj [
      ("case", toJson c.case),
      ("model", optTable m.result),
      ("spec", optTable s),
      ("scope", toJson m.flags)])

partial def loop (h : IO.FS.Stream) (out : IO.FS.Stream) : IO Unit := do
  let line ← h.getLine
  if line.isEmpty then return ()
  if line.trimAscii.isEmpty then loop h out else
  out.putStrLn (handle line)
  loop h out

def main : IO Unit := do
  let out ← IO.getStdout
  loop (← IO.getStdin) out
