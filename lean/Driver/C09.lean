/-
Driver/C09.lean — line-protocol driver for C09.  Evaluates the definitions the theorems of Props/C09.lean
are about (`quote`, `lex`, `unquote`, `renderInt`, `readInt`, `inferType`, `litOf`, `derivedNames`,
`dictRowCells`, `inferTy` / `specTy` on value trees, `litTs` / `tsBack` / `specTsBack` on timestamps, the scope predicates)
on the inputs of one case.  Strings travel as code-point arrays.
in : {"case": n, "strings": [[cp]], "sql": [cp], "ints": ["-12"], "kinds": ["bool"], "floats": [[decimalTyped, direct]],
      "schema": {"form": SchemaForm, "shape": RowShape}?, "dict": {"cols": [..], "keys": [..]}?}
-/
import SqlframeModel.Codec.C09
open Lean Sqlframe Sqlframe.C09

structure SchemaCase where
  form : SchemaForm
  shape : RowShape
  deriving FromJson

structure DictCase where
  cols : List String
  keys : List String
  deriving FromJson

structure TsCase where
  wall : String
  off : Option String := none
  deriving FromJson

structure Case where
  case : Nat
  strings : List (List Nat) := []
  sql : List Nat := []
  ints : List String := []
  kinds : List String := []
  floats : List (Bool × Bool) := []
  nans : List Bool := []
  schema : Option SchemaCase := none
  dict : Option DictCase := none
  dicts : List DictCase := []
  tss : List TsCase := []
  zone : String := "0"
  trees : List Json := []
  fdigits : List (Bool × String) := []
  deriving FromJson

def optNames : Option (List String) → Json
  | some l => toJson l
  | none => Json.null

def tail3 : List Char := [',', ' ', '1']

def handle (line : String) : String :=
  match Json.parse line >>= fromJson? (α := Case) with
  | .error e => Json.compress (Json.mkObj [("err", toJson s!"bad-input: {e}")])
  | .ok c =>
    let strs := c.strings.map ofCps
    let quoted := strs.map (fun s => cps (quote s))
    let unq := strs.map (fun s => decide (unquote (quote s) = some s))
    -- the statement of C09_string_token evaluated on this string with a fixed continuation
    let tokOk := strs.map (fun s => decide (lex (quote s ++ tail3) = Tok.quoted SQ s :: lex tail3))
    let noNul := strs.map (fun s => decide (H_noNul s))
    let toks := lex (ofCps c.sql)
    let sqlStrs := toks.filterMap (fun t => match t with | .quoted q s => if q = SQ then some (cps s) else none | _ => none)
    let sqlIds := toks.filterMap (fun t => match t with | .quoted q s => if q = DQ then some (cps s) else none | _ => none)
    let unterminated := toks.any (fun t => t == Tok.unterminated)
    let ints := c.ints.map (fun s =>
      match s.toInt? with
      | some i => Json.mkObj [("text", toJson (String.ofList (renderInt i))),
                              ("read", match readInt (renderInt i) with | some j => toJson (toString j) | none => Json.null),
                              ("in64", toJson (decide (inInt64 i)))]
      | none => Json.mkObj [("err", toJson "not an int")])
    let kinds := c.kinds.map (fun n =>
      match PyKind.ofName n with
      | some k => Json.mkObj [("kind", toJson n),
                              ("infer", match inferType k with | some t => toJson t | none => Json.null),
                              ("spec", match specType k with | some t => toJson t | none => Json.null),
                              ("lit", toJson (litOf k).name),
                              ("operand", toJson (operandLit k).name),
                              ("typed", toJson (typedRight k (litOf k))),
                              ("cast", toJson (columnHasCast (inferType k).isSome)),
                              ("hinf", toJson (decide (H_infLiteral k))),
                              ("hinfop", toJson (decide (H_infOperand k))),
                              ("infTexts", match infLitTexts with | some (p, n) => toJson [p, n] | none => Json.null),
                              ("infNestedDouble", toJson infNestedDouble)]
      | none => Json.mkObj [("err", toJson s!"unknown kind {n}")])
    let floats := c.floats.map (fun (d, r) =>
      Json.mkObj [("back", toJson (if floatBack d r = BackTy.float then "float" else "decimal")),
                  ("ok", toJson (decide (H_listFloat d r)))])
    let nans := c.nans.map (fun u =>
      Json.mkObj [("bits", toJson (groupFloatBits u)), ("ok", toJson (decide (H_nanWidth u)))])
    let schema := match c.schema with
      | some sc => Json.mkObj [("derived", optNames (derivedNames sc.form sc.shape)),
                               ("spec", toJson (specNames sc.form sc.shape)),
                               ("violated", toJson (schemaViolated sc.form sc.shape))]
      | none => Json.null
    let dict := match c.dict with
      | some d =>
        let row : List (String × Nat) := d.keys.zipIdx
        Json.mkObj [("model", toJson (dictRowCells d.cols row)),
                    ("spec", toJson (specDictRowCells d.cols row)),
                    ("violated", toJson (if decide (H_dictOrder d.cols row) then ([] : List String) else ["H_dictOrder"]))]
      | none => Json.null
    let dicts := c.dicts.map (fun d =>
      let row : List (String × Nat) := d.keys.zipIdx
      Json.mkObj [("model", toJson (dictRowCells d.cols row)),
                  ("spec", toJson (specDictRowCells d.cols row)),
                  ("violated", toJson (if decide (H_dictOrder d.cols row) then ([] : List String) else ["H_dictOrder"]))])
    let z := c.zone.toInt?.getD 0
    let optInt : Option Int → Json := fun o => match o with | some i => toJson (toString i) | none => Json.null
    let tss := c.tss.map (fun t =>
      match t.wall.toInt?, (match t.off with | some o => o.toInt?.map some | none => some none) with
      | some w, some o =>
        let v : PyTs := ⟨w, o⟩
        let l := litTs v
        Json.mkObj [("litWall", toJson (toString l.wall)), ("litOff", optInt l.off), ("ty", toJson l.ty),
                    ("back", optInt (tsBack z v)), ("spec", toJson (toString (specTsBack z v)))]
      | _, _ => Json.mkObj [("err", toJson "bad timestamp")])
    let trees := c.trees.map (fun j =>
      match PyVal.ofJson j with
      | .ok v => Json.mkObj [("ty", optTy (inferTy v)), ("text", match inferTy v with | some t => toJson t.text | none => Json.null),
                             ("spec", optTy (specTy v)), ("ok", toJson (decide (H_firstRowTyped v))),
                             ("cast", toJson (columnHasCast (inferTy v).isSome))]
      | .error e => Json.mkObj [("err", toJson e)])
    let fdigits := c.fdigits.map (fun (d, u) => toJson (decide (H_floatDigits d (u.toNat?.getD 0))))
    Json.compress (Json.mkObj [
      ("case", toJson c.case), ("fdigits", toJson fdigits), ("tss", toJson tss), ("trees", toJson trees), ("dicts", toJson dicts), ("quoted", toJson quoted), ("unq", toJson unq), ("tokOk", toJson tokOk),
      ("noNul", toJson noNul), ("sqlStrs", toJson sqlStrs), ("sqlIds", toJson sqlIds),
      ("unterminated", toJson unterminated), ("ints", toJson ints), ("kinds", toJson kinds), ("floats", toJson floats), ("nans", toJson nans),
      ("schema", schema), ("dict", dict)])

partial def loop (h : IO.FS.Stream) (out : IO.FS.Stream) : IO Unit := do
  let line ← h.getLine
  if line.isEmpty then return ()
  if line.trimAscii.isEmpty then loop h out else
  out.putStrLn (handle line)
  loop h out

def main : IO Unit := do
  let out ← IO.getStdout
  loop (← IO.getStdin) out
