/-
Driver/C12.lean — line-protocol driver for C12.  Evaluates the SAME definitions the theorems are about.
in  (one JSON object per line), by "kind":
  {"case": n, "kind": "table"}                                          -> the generated engine table and plumbing facts
  {"case": n, "kind": "sanitize", "s": "<text>"}                        -> sanitize s, sanitizeColumnName true/false s
  {"case": n, "kind": "ident", "dialect": d, "name": s, "quoted": b, "marked": b}
                                                                        -> normalizeIdent (strategyOf d) marked ⟨s, b⟩
  {"case": n, "kind": "round", "engine": e, "h": <int>}                 -> F.round(col) over the double h/2 on engine e as the model
       evaluates it (generated decision + assumed primitive table), PySpark's value, the two primitives, the operand types
  {"case": n, "kind": "name", "engine": e, "name": s, "quoted": b}      -> on engine e's default session: the identifier
       as `_to_sql` writes it, the dialect of the statement, what `_collect` returns for a reported name `s`, the
       user-visible result name, and whether it is CaseEq / NameEquiv to the DuckDB session's
-/
import SqlframeModel.Codec.C12
import SqlframeModel.Impl.C12Round
open Lean Sqlframe Sqlframe.Gen Sqlframe.C12

structure Case where
  case : Nat
  kind : String
  s : Option String := none
  dialect : Option String := none
  engine : Option String := none
  name : Option String := none
  quoted : Option Bool := none
  marked : Option Bool := none
  h : Option Int := none
  deriving FromJson

def str (cs : List Char) : String := String.ofList cs

def tableJson : Json :=
  Json.mkObj [
    ("engines", Json.arr (engines.map rowJson).toArray),
    ("baseSanitize", toJson baseSanitize),
    ("baseFlags", Json.arr (baseFlags.map (fun p => Json.arr #[toJson p.1, toJson p.2])).toArray),
    ("baseDefaults", Json.arr #[toJson (baseDefault .input), toJson (baseDefault .output), toJson (baseDefault .execution)]),
    ("replacements", Json.arr (sanitizeReplacements.map (fun p => Json.arr #[toJson (str [p.1]), toJson (str [p.2])])).toArray),
    ("replacementsText", Json.arr (sanitizeReplacementsText.map (fun p => Json.arr #[toJson p.1, toJson p.2])).toArray),
    ("sanitizeGuarded", toJson sanitizeGuarded),
    ("toSql", pairJson toSqlPair), ("toSqlTakesOverride", toJson toSqlTakesOverride),
    ("collect", pairJson collectRenormPair), ("collectMarks", toJson collectMarksCaseSensitive),
    ("mapKey", pairJson mapKeyRenormPair),
    ("strToDialect", Json.arr (strToDialect.map (fun p => Json.arr #[toJson p.1, toJson (roleName p.2)])).toArray),
    ("normalizeOrder", toJson (normalizeOrder.map sideName)), ("renderIn", toJson (sideName renderIn)), ("quoteIn", toJson (sideName quoteIn)),
    ("flagsUsed", toJson flagsUsed),
    ("roundPgCast", Json.arr #[toJson roundPgCastNoScale, toJson roundPgCastWithScale]),
    ("strategies", Json.mkObj (["snowflake", "bigquery", "duckdb", "spark", "databricks", "redshift", "postgres"].map
        (fun d => (d, toJson (strategyName (strategyOf d))))))]

def handle (line : String) : String :=
  match Json.parse line >>= fromJson? (α := Case) with
  | .error e => Json.compress (Json.mkObj [("err", toJson s!"bad-input: {e}")])
  | .ok c =>
    let base := [("case", toJson c.case), ("kind", toJson c.kind)]
    match c.kind with
    | "table" => Json.compress (Json.mkObj (base ++ [("table", tableJson)]))
    | "sanitize" =>
      let s := (c.s.getD "").toList
      Json.compress (Json.mkObj (base ++ [
        ("sanitized", toJson (str (sanitize s))),
        ("flagTrue", toJson (str (sanitizeColumnName true s))),
        ("flagFalse", toJson (str (sanitizeColumnName false s))),
        ("idem", toJson (decide (sanitize (sanitize s) = sanitize s))),
        ("len", toJson (sanitize s).length)]))
    | "ident" =>
      let i : C12.Ident := ⟨(c.name.getD "").toList, c.quoted.getD false⟩
      let r := normalizeIdent (strategyOf (c.dialect.getD "")) (c.marked.getD false) i
      Json.compress (Json.mkObj (base ++ [("name", toJson (str r.name)), ("quoted", toJson r.quoted)]))
    | "name" =>
      let e := c.engine.getD ""
      match engines.find? (·.engine = e) with
      | none => Json.compress (Json.mkObj (base ++ [("err", toJson s!"no engine row {e}")]))
      | some r =>
        let d := rowDialects r
        let n := (c.name.getD "").toList
        let i : C12.Ident := ⟨n, c.quoted.getD false⟩
        let st := stmtIdent strategyOf d i
        let res := rowResultName r strategyOf ⟨sanitizeColumnName r.sanitize n, i.quoted⟩
        let duck := resultName strategyOf duckDialects i
        Json.compress (Json.mkObj (base ++ [
          ("stmtName", toJson (str st.name)), ("stmtQuoted", toJson st.quoted), ("stmtDialect", toJson (stmtDialect d)),
          ("collectName", toJson (str (collectNameWith (rowCollect r).1 (rowCollect r).2 strategyOf d n))),
          ("alias", toJson (str (sanitizeColumnName r.sanitize n))),
          ("resultName", toJson (str res)), ("duckName", toJson (str duck)),
          ("nameEquiv", toJson (decide (NameEquiv r.sanitize res duck)))]))
    | "round" =>
      let e := c.engine.getD ""
      let h := c.h.getD 0
      Json.compress (Json.mkObj (base ++ [
        ("model", toJson (sqlframeRound e h)), ("spec", toJson (sparkRound h)),
        ("away", toJson (halfAway h)), ("even", toJson (halfEven h)),
        ("operandNoScale", toJson (match roundOperand e roundPgCastNoScale with | .double => "double" | .numeric => "numeric")),
        ("operandWithScale", toJson (match roundOperand e roundPgCastWithScale with | .double => "double" | .numeric => "numeric")),
        ("scaleValid", toJson (sqlframeRoundScaleValid e))]))
    | k => Json.compress (Json.mkObj (base ++ [("err", toJson s!"unknown kind {k}")]))

partial def loop (h : IO.FS.Stream) (out : IO.FS.Stream) : IO Unit := do
  let line ← h.getLine
  if line.isEmpty then return ()
  if line.trimAscii.isEmpty then loop h out else
  out.putStrLn (handle line)
  loop h out

def main : IO Unit := do
  let out ← IO.getStdout
  loop (← IO.getStdin) out
