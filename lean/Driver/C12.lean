/-
Driver/C12.lean — line-protocol driver for C12.  Evaluates the SAME definitions the theorems are about.
in  (one JSON object per line), by "kind":
  {"case": n, "kind": "table"}                                          -> the generated engine table and plumbing facts
  {"case": n, "kind": "sanitize", "s": "<text>"}                        -> sanitize s, sanitizeColumnName true/false s
  {"case": n, "kind": "ident", "dialect": d, "name": s, "quoted": b, "marked": b}
                                                                        -> normalizeIdent (strategyOf d) marked ⟨s, b⟩
  {"case": n, "kind": "round", "engine": e, "h": <int>}                 -> F.round(col) over the double h/2 on engine e as the model
       evaluates it (generated decision + assumed primitive table), PySpark's value, the two primitives, the operand types
  {"case": n, "kind": "timetables"}                                     -> sqlglot's TIME_FORMAT / TIME_MAPPING / inverse as the model has them
  {"case": n, "kind": "fmttime", "dialect": d, "s": fmt, "dir": "read"|"write"} -> readFormat / writeFormat (sqlglot's format_time as modelled)
  {"case": n, "kind": "timefmt", "engine": e, "input": d1, "output": d2, "execution": d3, "fmt": null|fmt}
                                                                        -> default_time_format, format_time, format_execution_time,
       the try_to_timestamp literal of engine e, and what the execution engine / Spark read them as
  {"case": n, "kind": "overlay", "engine": e, "form": "omitted"|"pyInt"|"column", "rows": [[src|null, rep|null, pos|null, len|null], ..]}
  {"case": n, "kind": "sequence", "engine": e, "rows": [[a, b], ..]}    -> F.sequence(a, b) without a step
  {"case": n, "kind": "rint", "engine": e, "rows": [[h], ..]}           -> F.rint over the doubles h/2
  {"case": n, "kind": "regexp", "engine": e, "posGiven": b, "subjects": [s, ..]}   (U+0001 in a subject marks a match)
                                                                        -> U+0002 marks a replaced match, U+0001 a match left alone
  {"case": n, "kind": "name", "engine": e, "name": s, "quoted": b}      -> on engine e's default session: the identifier
       as `_to_sql` writes it, the dialect of the statement, what `_collect` returns for a reported name `s`, the
       user-visible result name, and whether it is CaseEq / NameEquiv to the DuckDB session's
-/
import SqlframeModel.Codec.C12
import SqlframeModel.Impl.C12Round
import SqlframeModel.Impl.C12Fns
open Lean Sqlframe Sqlframe.Gen Sqlframe.C12

structure Case where
  case : Nat
  kind : String
  s : Option String := none
  dialect : Option String := none
  engine : Option String := none
  name : Option String := none
  quoted : Option Bool := none
  marked : Option Bool := none
  h : Option Int := none
  input : Option String := none
  output : Option String := none
  execution : Option String := none
  fmt : Option String := none
  dir : Option String := none
  form : Option String := none
  posGiven : Option Bool := none
  subjects : Option (List String) := none
  rows : Option (List (List (Option Json))) := none
  deriving FromJson

def optStr (j : Option Json) : Option C12.Str := match j with | some (.str s) => some s.toList | _ => none
def optInt (j : Option Json) : Option Int := match j with
  | some j => (match j.getInt? with | .ok i => some i | .error _ => none)
  | none => none
def formOf : String → ArgForm | "pyInt" => .pyInt | "column" => .column | _ => .omitted
def strJson (o : Option C12.Str) : Json := match o with | some s => toJson (String.ofList s) | none => Json.null
def tblJson (t : C12.Tbl) : Json := Json.arr (t.map (fun kv => Json.arr #[toJson (String.ofList kv.1), toJson (String.ofList kv.2)])).toArray
def pieceOf (c : Char) : Piece := if c = Char.ofNat 1 then .hit else .ch c
def outChar : Out → Char | .ch c => c | .replaced => Char.ofNat 2 | .kept => Char.ofNat 1

def str (cs : List Char) : String := String.ofList cs

def tableJson : Json :=
  Json.mkObj [
    ("engines", Json.arr (engines.map rowJson).toArray),
    ("baseSanitize", toJson baseSanitize),
    ("baseFlags", Json.arr (baseFlags.map (fun p => Json.arr #[toJson p.1, toJson p.2])).toArray),
    ("baseDefaults", Json.arr #[toJson (baseDefault .input), toJson (baseDefault .output), toJson (baseDefault .execution)]),
    ("replacements", Json.arr (sanitizeReplacements.map (fun p => Json.arr #[toJson (str [p.1]), toJson (str [p.2])])).toArray),
    ("replacementsText", Json.arr (sanitizeReplacementsText.map (fun p => Json.arr #[toJson p.1, toJson p.2])).toArray),
    ("sanitizeGuarded", toJson sanitizeGuarded),
    ("toSql", pairJson toSqlPair), ("toSqlTakesOverride", toJson toSqlTakesOverride),
    ("collect", pairJson collectRenormPair), ("collectMarks", toJson collectMarksCaseSensitive),
    ("mapKey", pairJson mapKeyRenormPair),
    ("strToDialect", Json.arr (strToDialect.map (fun p => Json.arr #[toJson p.1, toJson (roleName p.2)])).toArray),
    ("normalizeOrder", toJson (normalizeOrder.map sideName)), ("renderIn", toJson (sideName renderIn)), ("quoteIn", toJson (sideName quoteIn)),
    ("flagsUsed", toJson flagsUsed),
    ("roundPgCast", Json.arr #[toJson roundPgCastNoScale, toJson roundPgCastWithScale]),
    ("strategies", Json.mkObj (["snowflake", "bigquery", "duckdb", "spark", "databricks", "redshift", "postgres"].map
        (fun d => (d, toJson (strategyName (strategyOf d))))))]

def handle (line : String) : String :=
  match Json.parse line >>= fromJson? (α := Case) with
  | .error e => Json.compress (Json.mkObj [("err", toJson s!"bad-input: {e}")])
  | .ok c =>
    let base := [("case", toJson c.case), ("kind", toJson c.kind)]
    match c.kind with
    | "table" => Json.compress (Json.mkObj (base ++ [("table", tableJson)]))
    | "sanitize" =>
      let s := (c.s.getD "").toList
      Json.compress (Json.mkObj (base ++ [
        ("sanitized", toJson (str (sanitize s))),
        ("flagTrue", toJson (str (sanitizeColumnName true s))),
        ("flagFalse", toJson (str (sanitizeColumnName false s))),
        ("idem", toJson (decide (sanitize (sanitize s) = sanitize s))),
        ("len", toJson (sanitize s).length)]))
    | "ident" =>
      let i : C12.Ident := ⟨(c.name.getD "").toList, c.quoted.getD false⟩
      let r := normalizeIdent (strategyOf (c.dialect.getD "")) (c.marked.getD false) i
      Json.compress (Json.mkObj (base ++ [("name", toJson (str r.name)), ("quoted", toJson r.quoted)]))
    | "name" =>
      let e := c.engine.getD ""
      match engines.find? (·.engine = e) with
      | none => Json.compress (Json.mkObj (base ++ [("err", toJson s!"no engine row {e}")]))
      | some r =>
        let d := rowDialects r
        let n := (c.name.getD "").toList
        let i : C12.Ident := ⟨n, c.quoted.getD false⟩
        let st := stmtIdent strategyOf d i
        let res := rowResultName r strategyOf ⟨sanitizeColumnName r.sanitize n, i.quoted⟩
        let duck := resultName strategyOf duckDialects i
        Json.compress (Json.mkObj (base ++ [
          ("stmtName", toJson (str st.name)), ("stmtQuoted", toJson st.quoted), ("stmtDialect", toJson (stmtDialect d)),
          ("collectName", toJson (str (collectNameWith (rowCollect r).1 (rowCollect r).2 strategyOf d n))),
          ("alias", toJson (str (sanitizeColumnName r.sanitize n))),
          ("resultName", toJson (str res)), ("duckName", toJson (str duck)),
          ("nameEquiv", toJson (decide (NameEquiv r.sanitize res duck)))]))
    | "round" =>
      let e := c.engine.getD ""
      let h := c.h.getD 0
      Json.compress (Json.mkObj (base ++ [
        ("model", toJson (sqlframeRound e h)), ("spec", toJson (sparkRound h)),
        ("away", toJson (halfAway h)), ("even", toJson (halfEven h)),
        ("operandNoScale", toJson (match roundOperand e roundPgCastNoScale with | .double => "double" | .numeric => "numeric")),
        ("operandWithScale", toJson (match roundOperand e roundPgCastWithScale with | .double => "double" | .numeric => "numeric")),
        ("scaleValid", toJson (sqlframeRoundScaleValid e))]))
    | "timetables" =>
      Json.compress (Json.mkObj (base ++ [("tables", Json.mkObj (timeTableDialects.map (fun d =>
        (d, Json.mkObj [("format", toJson (timeFormatOf d)), ("mapping", tblJson (tblOf (timeMappingOf d))),
          ("inverse", tblJson (inverseOf (tblOf (timeMappingOf d))))]))))]))
    | "fmttime" =>
      let d := c.dialect.getD ""
      let x := (c.s.getD "").toList
      let r := if c.dir.getD "read" = "write" then writeFormat d x else readFormat d x
      Json.compress (Json.mkObj (base ++ [("out", toJson (String.ofList r))]))
    | "timefmt" =>
      let d : Dialects := { input := c.input.getD "spark", output := c.output.getD "spark", execution := c.execution.getD "spark" }
      let f := c.fmt.map String.toList
      let lit := formatExecutionTime d f
      Json.compress (Json.mkObj (base ++ [
        ("defaultTimeFormat", toJson (String.ofList (defaultTimeFormat d))),
        ("formatTime", toJson (String.ofList (formatTime d f))),
        ("formatExecutionTime", toJson (String.ofList lit)),
        ("engineReads", toJson (String.ofList (engineReads d lit))),
        ("sparkReads", toJson (String.ofList (sparkReads f))),
        ("tryToTimestampLiteral", strJson (tryToTimestampLiteral (c.engine.getD "") d f)),
        ("tryToTimestampReads", strJson ((tryToTimestampLiteral (c.engine.getD "") d f).map (engineReads d)))]))
    | "overlay" =>
      let e := c.engine.getD ""
      let form := formOf (c.form.getD "omitted")
      let rows := (c.rows.getD []).map (fun r => ({ src := optStr (r.getD 0 none), rep := optStr (r.getD 1 none), pos := optInt (r.getD 2 none), len := optInt (r.getD 3 none) } : OverlayRow))
      Json.compress (Json.mkObj (base ++ [
        ("emulated", toJson (overlayIsEmulated e)), ("concatSkipsNull", toJson (concatSkipsNull e)),
        ("model", Json.arr (rows.map (fun x => strJson (sqlframeOverlay e form x))).toArray),
        ("spec", Json.arr (rows.map (fun x => strJson (overlaySpec form x))).toArray),
        ("inDomain", toJson (rows.map (fun x => decide x.inDomain))),
        ("H_overlayNullOnDuckdb", toJson (rows.map (fun x => concatSkipsNull e = false || overlayIsEmulated e = false || x.allPresent form)))]))
    | "sequence" =>
      let e := c.engine.getD ""
      let rows := (c.rows.getD []).map (fun r => ((optInt (r.getD 0 none)).getD 0, (optInt (r.getD 1 none)).getD 0))
      match seqRuleOf e with
      | none => Json.compress (Json.mkObj (base ++ [("err", toJson s!"no sequence rule for {e}")]))
      | some rule =>
        Json.compress (Json.mkObj (base ++ [
          ("rule", toJson (match rule with | .direction => "direction" | .native => "native" | .const k => s!"const {k}")),
          ("model", toJson (rows.map (fun p => sqlframeSequence rule p.1 p.2))),
          ("spec", toJson (rows.map (fun p => sparkSequence p.1 p.2))),
          ("H_sequenceDescendingNoStep", toJson (rows.map (fun p => decide (rule = .direction ∨ rule = .native ∨ p.1 ≤ p.2))))]))
    | "rint" =>
      let e := c.engine.getD ""
      let hs := (c.rows.getD []).map (fun r => (optInt (r.getD 0 none)).getD 0)
      match rintRuleOf e with
      | none => Json.compress (Json.mkObj (base ++ [("err", toJson s!"no rint rule for {e}")]))
      | some rule =>
        Json.compress (Json.mkObj (base ++ [
          ("rule", toJson (match rule with | .roundEven => "roundEven" | .fromRound => "fromRound" | .native => "native")),
          ("model", toJson (hs.map (sqlframeRint rule))), ("spec", toJson (hs.map sparkRint)),
          ("H_rintHalfAwayEmulation", toJson (hs.map (fun h => decide (rule ≠ .fromRound ∨ h % 2 = 0))))]))
    | "regexp" =>
      let e := c.engine.getD ""
      let subs := (c.subjects.getD []).map (fun s => s.toList.map pieceOf)
      Json.compress (Json.mkObj (base ++ [
        ("model", toJson (subs.map (fun ps => String.ofList ((sqlframeRegexpReplace e (c.posGiven.getD false) ps).map outChar)))),
        ("spec", toJson (subs.map (fun ps => String.ofList ((replaceAll ps).map outChar))))]))
    | k => Json.compress (Json.mkObj (base ++ [("err", toJson s!"unknown kind {k}")]))

partial def loop (h : IO.FS.Stream) (out : IO.FS.Stream) : IO Unit := do
  let line ← h.getLine
  if line.isEmpty then return ()
  if line.trimAscii.isEmpty then loop h out else
  out.putStrLn (handle line)
  loop h out

def main : IO Unit := do
  let out ← IO.getStdout
  loop (← IO.getStdin) out
