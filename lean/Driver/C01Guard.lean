/-
Driver/C01Guard.lean — `orderBy`'s guard for sort expressions, as regenerated (Gen.orderRedefined / orderExprGuard /
orderGuardSkipsBareKeys) and as used by `C01_exprkey_resolution` (`exprKeyNeedsWrap_eq` relates the two forms).
in : {"case": n, "items": [{"isAlias","alias","thisIsCol","thisName"}], "keys": [[bare?, [names mentioned]]]}
out: {"case": n, "wrap": Bool}
-/
import SqlframeModel.Codec.C01
import SqlframeModel.Impl.C01ExprKey
open Lean Sqlframe Sqlframe.Gen

deriving instance FromJson for SelItem

structure GCase where
  case : Nat
  items : List SelItem
  keys : List (Bool × List String)
  deriving FromJson

def handle (line : String) : String :=
  match Json.parse line >>= fromJson? (α := GCase) with
  | .error e => Json.compress (Json.mkObj [("err", toJson s!"bad-input: {e}")])
  | .ok c => Json.compress (Json.mkObj [("case", toJson c.case), ("wrap", toJson (guardOnViews c.items c.keys))])

partial def loop (h : IO.FS.Stream) (out : IO.FS.Stream) : IO Unit := do
  let line ← h.getLine
  if line.isEmpty then return ()
  if line.trimAscii.isEmpty then loop h out else
  out.putStrLn (handle line)
  loop h out

def main : IO Unit := do
  let out ← IO.getStdout
  loop (← IO.getStdin) out
