/-
Driver/C03.lean — line-protocol driver for the CTE-chain model and the aggregate-route model.
in : {"case": n, "prog": Prog}            out: the chain the model builds (names, refs), the open block's refs, whether
                                               the freshness hypotheses `Prog.OK` hold for the supplied names
     {"case": n, "agg": {keys, route}}    out: the items the route hands to `agg` (function, node, alias), whether the
                                               block is kept apart (`innerRefuses (aggBlock keys items)`), the functions
                                               emitted as nodes sqlglot cannot recognise, the violated scope hypotheses
     {"case": n, "block": InnerBlock}     out: `innerRefuses` of a block as observed on the real tree
     {"case": n, "tables": true}          out: the generated tables (exercised against the running code by the check)
-/
import SqlframeModel.Codec.C03
open Lean Sqlframe

structure Case where
  case : Nat
  prog : Option Prog := none
  agg : Option AggCase := none
  block : Option InnerBlock := none
  tables : Option Bool := none
  deriving FromJson

def handle (line : String) : String :=
  match Json.parse line >>= fromJson? (α := Case) with
  | .error e => Json.compress (Json.mkObj [("err", toJson s!"bad-input: {e}")])
  | .ok c =>
    match c.prog, c.agg, c.block with
    | some p, _, _ =>
      let d := p.build
      Json.compress (Json.mkObj [
        ("case", toJson c.case),
        ("names", toJson (cnames d.ctes)),
        ("refs", toJson (d.ctes.map (·.refs))),
        ("open", toJson d.open_),
        ("ok", toJson (decide p.OK))])
    | none, some a, _ =>
      match a.route.items with
      | none => Json.compress (Json.mkObj [("case", toJson c.case), ("noRoute", toJson true)])
      | some items =>
        Json.compress (Json.mkObj [
          ("case", toJson c.case),
          ("items", Json.arr (items.map itemJson).toArray),
          ("refuses", toJson (innerRefuses (aggBlock a.keys items))),
          ("block", toJson (aggBlock a.keys items)),
          ("opaque", toJson (opaqueFns items)),
          ("violated", toJson (violatedC03Agg items))])
    | none, none, some b =>
      Json.compress (Json.mkObj [("case", toJson c.case), ("refuses", toJson (innerRefuses b))])
    | none, none, none =>
      if c.tables == some true then
        Json.compress (Json.mkObj [
          ("case", toJson c.case),
          ("fnNodeTable", Json.arr (Gen.fnNodeTable.map (fun p => Json.arr #[toJson p.1, nodeJson (some p.2)])).toArray),
          ("aggFuncClasses", toJson Gen.aggFuncClasses),
          ("mergeBarrierClasses", toJson Gen.mergeBarrierClasses),
          ("unmergeableArgs", toJson Gen.unmergeableArgs),
          ("byNameShortcuts", toJson (Gen.byNameShortcuts.map (fun p => [p.1, p.2]))),
          ("byNameLowers", toJson Gen.byNameLowers),
          ("anonymousUppers", toJson Gen.anonymousUppers),
          ("count", toJson [Gen.groupCountFn, Gen.groupCountArg, Gen.groupCountAlias])])
      else Json.compress (Json.mkObj [("err", toJson "bad-input: no prog / agg / block / tables")])

partial def loop (h : IO.FS.Stream) (out : IO.FS.Stream) : IO Unit := do
  let line ← h.getLine
  if line.isEmpty then return ()
  if line.trimAscii.isEmpty then loop h out else
  out.putStrLn (handle line)
  loop h out

def main : IO Unit := do
  let out ← IO.getStdout
  loop (← IO.getStdin) out
