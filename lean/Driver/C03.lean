/-
Driver/C03.lean — line-protocol driver for the CTE-chain model.
in : {"case": n, "prog": Prog}
out: the chain the model builds (names, refs), the open block's refs, whether the freshness
     hypotheses `Prog.OK` hold for the supplied names.
-/
import SqlframeModel.Codec.C03
open Lean Sqlframe

structure Case where
  case : Nat
  prog : Prog
  deriving FromJson

def handle (line : String) : String :=
  match Json.parse line >>= fromJson? (α := Case) with
  | .error e => Json.compress (Json.mkObj [("err", toJson s!"bad-input: {e}")])
  | .ok c =>
    let d := c.prog.build
    Json.compress (Json.mkObj [
      ("case", toJson c.case),
      ("names", toJson (cnames d.ctes)),
      ("refs", toJson (d.ctes.map (·.refs))),
      ("open", toJson d.open_),
      ("ok", toJson (decide c.prog.OK))])

partial def loop (h : IO.FS.Stream) (out : IO.FS.Stream) : IO Unit := do
  let line ← h.getLine
  if line.isEmpty then return ()
  if line.trimAscii.isEmpty then loop h out else
  out.putStrLn (handle line)
  loop h out

def main : IO Unit := do
  let out ← IO.getStdout
  loop (← IO.getStdin) out
