/-
Driver/C16.lean — line-protocol driver for C16.
in : {"case": n, "name": "<column name>"}
out: {"case": n, "name": .., "origin": Gen.cellsOrigin, "cells": [ {fn, engine, pos, sub, coercion,
       "str": model result of the string form, "col": model result of the col(name) form, "spec": PySpark's,
       "equal": str form = col form, "meets": both = spec, "scope": [violated hypothesis names]} … ]}
     "struct": the model of struct(name, "c") for the four call forms (names / col objects, varargs / ONE list) with
       sqlglot's readings kept symbolic (`symNames`: aliasOf(..), identOf(..)), and PySpark's,
     "sites": for every generated unpacking site, whether the list form / the varargs form unpacks (else: raises)}
One output line per input line; every row of the generated table `Gen.cells` is evaluated with the SAME
definitions the theorems are about (`resultWith`, `specResult`, `violated`, `structCall`, `UnpackSite.unpack`), the
parser being the stand-in `parseStandIn` (identifier-like text = a column reference).
-/
import SqlframeModel.Codec.C16
open Lean Sqlframe Sqlframe.Gen Sqlframe.C16

structure Case where
  case : Nat
  name : String
  deriving FromJson

def ctx (fn : String) (e : Ex) : Ex := .app fn [e]

def cellJson (n : String) (c : Cell) : Json :=
  let s := resultWith parseStandIn (ctx c.fn) c.coercion (.str n)
  let k := resultWith parseStandIn (ctx c.fn) c.coercion (.colObj (.column n))
  let sp := specResult (ctx c.fn) n
  Json.mkObj [
    ("fn", toJson c.fn), ("engine", toJson c.engine.name), ("pos", toJson c.pos), ("sub", toJson c.sub),
    ("coercion", toJson (coercionName c.coercion)),
    ("str", renderOpt s), ("col", renderOpt k), ("spec", renderOpt sp),
    ("equal", toJson (optBeq s k)), ("meets", toJson (optBeq s sp && optBeq k sp)),
    ("scope", toJson (violated c))]

def structJson (n : String) : Json :=
  match unpackSites.find? (fun s => s.api == "struct" && s.impl == "struct") with
  | none => Json.mkObj [("err", toJson "no struct site")]
  | some site =>
    let ns := [n, "c"]
    Json.mkObj [
      ("varargs_str", renderOpt (structCall symNames site structFieldName (.varargs (strArgs ns)))),
      ("list_str", renderOpt (structCall symNames site structFieldName (.oneList (strArgs ns)))),
      ("varargs_col", renderOpt (structCall symNames site structFieldName (.varargs (colArgs ns)))),
      ("list_col", renderOpt (structCall symNames site structFieldName (.oneList (colArgs ns)))),
      ("spec", renderOpt (some (specStruct symNames ns)))]

def siteJson (n : String) (s : UnpackSite) : Json :=
  Json.mkObj [
    ("api", toJson s.api), ("impl", toJson s.impl), ("engines", toJson (s.engines.map Engine.name)),
    ("splices", toJson s.flattener.splices),
    ("list_str", toJson (s.unpack (.oneList (strArgs [n, "c"]))).isSome),
    ("varargs_str", toJson (s.unpack (.varargs (strArgs [n, "c"]))).isSome),
    ("list_col", toJson (s.unpack (.oneList (colArgs [n, "c"]))).isSome),
    ("varargs_col", toJson (s.unpack (.varargs (colArgs [n, "c"]))).isSome)]

def handle (line : String) : String :=
  match Json.parse line >>= fromJson? (α := Case) with
  | .error e => Json.compress (Json.mkObj [("err", toJson s!"bad-input: {e}")])
  | .ok c =>
    Json.compress (Json.mkObj [
      ("case", toJson c.case), ("name", toJson c.name), ("origin", toJson cellsOrigin),
      ("struct", structJson c.name),
      ("sites", Json.arr (unpackSites.map (siteJson c.name)).toArray),
      ("auto_alias", Json.mkObj [("from_result_only", toJson autoAliasFromResultOnly), ("not_for", toJson noAutoAlias)]),
      ("cells", Json.arr (cells.map (cellJson c.name)).toArray)])

partial def loop (h : IO.FS.Stream) (out : IO.FS.Stream) : IO Unit := do
  let line ← h.getLine
  if line.isEmpty then return ()
  if line.trimAscii.isEmpty then loop h out else
  out.putStrLn (handle line)
  loop h out

def main : IO Unit := do
  let out ← IO.getStdout
  loop (← IO.getStdin) out
