/-
Driver/C16.lean — line-protocol driver for C16.
in : {"case": n, "name": "<column name>"}
out: {"case": n, "name": .., "origin": Gen.cellsOrigin, "cells": [ {fn, engine, pos, sub, coercion,
       "str": model result of the string form, "col": model result of the col(name) form, "spec": PySpark's,
       "equal": str form = col form, "meets": both = spec, "scope": [violated hypothesis names]} … ]}
One output line per input line; every row of the generated table `Gen.cells` is evaluated with the SAME
definitions the theorems are about (`resultWith`, `specResult`, `violated`), the parser being the stand-in
`parseStandIn` (identifier-like text = a column reference).
-/
import SqlframeModel.Codec.C16
open Lean Sqlframe Sqlframe.Gen Sqlframe.C16

structure Case where
  case : Nat
  name : String
  deriving FromJson

def ctx (fn : String) (e : Ex) : Ex := .app fn [e]

def cellJson (n : String) (c : Cell) : Json :=
  let s := resultWith parseStandIn (ctx c.fn) c.coercion (.str n)
  let k := resultWith parseStandIn (ctx c.fn) c.coercion (.colObj (.column n))
  let sp := specResult (ctx c.fn) n
  Json.mkObj [
    ("fn", toJson c.fn), ("engine", toJson c.engine.name), ("pos", toJson c.pos), ("sub", toJson c.sub),
    ("coercion", toJson (coercionName c.coercion)),
    ("str", renderOpt s), ("col", renderOpt k), ("spec", renderOpt sp),
    ("equal", toJson (optBeq s k)), ("meets", toJson (optBeq s sp && optBeq k sp)),
    ("scope", toJson (violated c))]

def handle (line : String) : String :=
  match Json.parse line >>= fromJson? (α := Case) with
  | .error e => Json.compress (Json.mkObj [("err", toJson s!"bad-input: {e}")])
  | .ok c =>
    Json.compress (Json.mkObj [
      ("case", toJson c.case), ("name", toJson c.name), ("origin", toJson cellsOrigin),
      ("cells", Json.arr (cells.map (cellJson c.name)).toArray)])

partial def loop (h : IO.FS.Stream) (out : IO.FS.Stream) : IO Unit := do
  let line ← h.getLine
  if line.isEmpty then return ()
  if line.trimAscii.isEmpty then loop h out else
  out.putStrLn (handle line)
  loop h out

def main : IO Unit := do
  let out ← IO.getStdout
  loop (← IO.getStdin) out
