/-
Driver/C20.lean — line-protocol driver for C20 (activate / deactivate / activate_context event sequences).
in : {"case": n, "env": Env, "events": [Event]}
out: {"case": n, "trace": [{"outcome", "mods", "config", "caller", "cur", "fn": [[engine, functions-attr|null, canonFn]]}],
      "spec": [{"want", "active", "mocked", "config", "meets", "stateMeets"}], "scope": [violated hypotheses]}
     or, for {"tables": true}: the generated tables as the model reads them
Pure function of its input lines.
-/
import SqlframeModel.Codec.C20
open Lean Sqlframe.C20 Sqlframe.Gen.Act Sqlframe.Gen.ActS

structure Case where
  case : Nat
  env : Env
  events : List Event
  deriving FromJson

def stateJson (o : Outcome) (st : State) : Json :=
  Json.mkObj [
    ("outcome", toJson o),
    ("mods", toJson st.mods),
    ("config", toJson st.config),
    ("caller", toJson st.caller),
    ("cur", toJson st.cur),
    ("ctx", toJson st.ctx),
    ("fn", toJson (st.pkgs.map (fun p => (p.1, aget p.2.dyn "functions", p.2.canonFn))))]

def specJson (w : Want) (s : Spec) (o : Outcome) (st : State) : Json :=
  Json.mkObj [
    ("want", toJson w), ("active", toJson s.active), ("mocked", toJson s.mocked), ("config", toJson s.config),
    ("meets", toJson (w.meets o)), ("stateMeets", toJson (stateMeets s st))]

def tables : Json :=
  Json.mkObj [
    ("engines", toJson (akeys engineToPrefix)),
    ("static", toJson ((akeys engineToPrefix).map (fun e => (e, (staticAttrs e).map (·.1))))),
    ("selected", toJson ((engineToPrefix).map (fun ep => (ep.1, ((staticAttrs ep.1).filter (fun kv => isSelected ep.2 kv.1)).map
        (fun kv => (kv.1, unprefixed ep.2 kv.1, fileFor (unprefixed ep.2 kv.1))))))),
    ("session", Json.mkObj [
        ("connKey", toJson builderConnKey), ("dialectKey", toJson builderDialectKey),
        ("defaultDialect", toJson defaultInputDialect), ("duckBuilderCaches", toJson duckBuilderCaches),
        ("singletonInNew", toJson singletonInNew), ("activateConnKey", toJson connKey),
        ("duckInit", toJson (duckInit.map (fun s => (repr s).pretty))),
        ("cfgStmts", toJson (cfgStmts.map (fun s => (repr s).pretty)))]),
    ("documented", toJson documentedImports),
    ("docKeys", toJson docKeys),
    ("expected", toJson ((akeys engineToPrefix).map (fun e => (e, documentedImports.map (expectedImport e)))))]

def handle (line : String) : String :=
  match Json.parse line with
  | .error e => Json.compress (Json.mkObj [("err", toJson s!"bad-json: {e}")])
  | .ok j =>
    if (j.getObjVal? "tables").isOk then Json.compress tables else
    match fromJson? (α := Case) j with
    | .error e => Json.compress (Json.mkObj [("err", toJson s!"bad-input: {e}")])
    | .ok c =>
      let tr := trace c.env State.fresh c.events
      let sp := specTrace c.env Spec.init c.events
      Json.compress (Json.mkObj [
        ("case", toJson c.case),
        ("trace", Json.arr (tr.map (fun os => stateJson os.1 os.2)).toArray),
        ("spec", Json.arr ((sp.zip tr).map (fun x => specJson x.1.1 x.1.2 x.2.1 x.2.2)).toArray),
        ("scope", toJson (violated c.env c.events))])

partial def loop (h : IO.FS.Stream) (out : IO.FS.Stream) : IO Unit := do
  let line ← h.getLine
  if line.isEmpty then return ()
  if line.trimAscii.isEmpty then loop h out else
  out.putStrLn (handle line)
  loop h out

def main : IO Unit := do
  let out ← IO.getStdout
  loop (← IO.getStdin) out
