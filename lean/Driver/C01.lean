/-
Driver/C01.lean — line-protocol driver for C01/C11 chains.
in : {"case": n, "table": Table, "steps": [Step]}
out: {"case": n, "model": table, "spec": table, "scope": [violated hypothesis names], "last": "<op>",
      "shape": [per frozen CTE, then the open block: select names, WHERE present, DISTINCT, ORDER BY keys, LIMIT | unpivot]}
Pure function of its input lines.
-/
import SqlframeModel.Codec.C01
open Lean Sqlframe

structure Case where
  case : Nat
  table : Table
  steps : List Step
  deriving FromJson

/-- what can be read back from the text of one SELECT block -/
def blockShape (b : Block) : Json :=
  Json.mkObj [("kind", "block"), ("sel", toJson (b.sel.map (·.1))), ("where", toJson (!b.wher.isEmpty)),
    ("distinct", toJson b.distinct), ("order", toJson (b.order.map (fun k => (k.name, k.desc)))),
    ("limit", match b.limit with | some n => toJson n | none => Json.null)]

def cteShape : CteBody → Json
  | .block b => blockShape b
  | .unpivot _ vals _ _ dis => Json.mkObj [("kind", "unpivot"), ("branches", toJson vals.length), ("distinct", toJson dis)]

def handle (line : String) : String :=
  match Json.parse line >>= fromJson? (α := Case) with
  | .error e => Json.compress (Json.mkObj [("err", toJson s!"bad-input: {e}")])
  | .ok c =>
    let d := (DF.init c.table).run c.steps
    let m := d.eval
    let s := specRun c.table c.steps
    Json.compress (Json.mkObj [
      ("case", toJson c.case),
      ("model", m.toPlain),
      ("spec", s.toPlain),
      ("scope", toJson (violated c.steps)),
      ("shape", Json.arr ((d.hist.map cteShape) ++ [blockShape d.blk]).toArray),
      ("last", toJson (reprStr d.last))])

partial def loop (h : IO.FS.Stream) (out : IO.FS.Stream) : IO Unit := do
  let line ← h.getLine
  if line.isEmpty then return ()
  if line.trimAscii.isEmpty then loop h out else
  out.putStrLn (handle line)
  loop h out

def main : IO Unit := do
  let out ← IO.getStdout
  loop (← IO.getStdin) out
