/-
Driver/C01Hist.lean — line-protocol driver for C01 scenarios: several chains over one source, run one after another in one
interpreter (`runScenarioGen`: the memo semantics of Impl/C01Memo.lean with the regenerated flags).
in : {"case": n, "table": Table, "chains": [[Step]]}
out: {"case": n, "model": [table per chain], "spec": [table per chain], "scope": [[violated hypothesis names] per chain],
      "memoised": b, "writtenInPlace": b, "fresh": b, "mutatedBy": [method], "bodies": {method: [[how, callee]]}, "direct": {method: b}, "wraps": {method: n}}
(the last six are the regenerated definitions themselves, so that the check can hold them against the running code)
Pure function of its input lines.
-/
import SqlframeModel.Codec.C01
import SqlframeModel.Impl.C01Memo
open Lean Sqlframe

structure HCase where
  case : Nat
  table : Table
  chains : List (List Step)
  deriving FromJson

def innerJson : Gen.Inner → Json
  | .decorated m => toJson ["decorated", m]
  | .undecorated m => toJson ["undecorated", m]

def genDump : List (String × Json) := [
  ("memoised", toJson Gen.outerColsMemoised),
  ("writtenInPlace", toJson Gen.withColumnsMutatesOuterCols),
  ("fresh", toJson Gen.outerColsFresh),
  ("mutatedBy", toJson Gen.outerColsMutatedBy),
  ("bodies", Json.mkObj (Gen.innerTable.map (fun (m, cs) => (m, Json.arr (cs.map innerJson).toArray)))),
  ("direct", Json.mkObj [("unpivot", toJson Gen.direct_unpivot), ("orderBy", toJson Gen.direct_orderBy), ("drop", toJson Gen.direct_drop),
    ("select", toJson Gen.direct_select), ("where", toJson Gen.direct_where), ("withColumn", toJson Gen.direct_withColumn),
    ("withColumns", toJson Gen.direct_withColumns), ("withColumnRenamed", toJson Gen.direct_withColumnRenamed),
    ("distinct", toJson Gen.direct_distinct), ("limit", toJson Gen.direct_limit), ("fillna", toJson Gen.direct_fillna),
    ("replace", toJson Gen.direct_replace), ("toDF", toJson Gen.direct_toDF), ("dropna", toJson Gen.direct_dropna)]),
  ("wraps", Json.mkObj [("unpivot", toJson Gen.wraps_unpivot), ("orderBy", toJson Gen.wraps_orderBy), ("drop", toJson Gen.wraps_drop),
    ("select", toJson Gen.wraps_select), ("where", toJson Gen.wraps_where), ("withColumn", toJson Gen.wraps_withColumn),
    ("withColumns", toJson Gen.wraps_withColumns), ("withColumnRenamed", toJson Gen.wraps_withColumnRenamed),
    ("distinct", toJson Gen.wraps_distinct), ("limit", toJson Gen.wraps_limit), ("fillna", toJson Gen.wraps_fillna),
    ("replace", toJson Gen.wraps_replace), ("toDF", toJson Gen.wraps_toDF), ("dropna", toJson Gen.wraps_dropna)])]

def handle (line : String) : String :=
  match Json.parse line >>= fromJson? (α := HCase) with
  | .error e => Json.compress (Json.mkObj [("err", toJson s!"bad-input: {e}")])
  | .ok c =>
    Json.compress (Json.mkObj ([
      ("case", toJson c.case),
      ("model", Json.arr ((runScenarioGen c.table c.chains).map (·.toPlain)).toArray),
      ("spec", Json.arr ((c.chains.map (fun ch => (specRun c.table ch).toPlain))).toArray),
      ("scope", toJson (c.chains.map violated))] ++ (if c.chains.isEmpty then genDump else [])))

partial def loop (h : IO.FS.Stream) (out : IO.FS.Stream) : IO Unit := do
  let line ← h.getLine
  if line.isEmpty then return ()
  if line.trimAscii.isEmpty then loop h out else
  out.putStrLn (handle line)
  loop h out

def main : IO Unit := do
  let out ← IO.getStdout
  loop (← IO.getStdin) out
