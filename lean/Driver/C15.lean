/-
Driver/C15.lean — line-protocol driver for C15.
in : {"case": n, "table": Table, "other": Table?, "cmds": [Cmd]}        Cmd = {"build": {"d": Dml}} | {"exec": {"i": k}}
     ("other": the table `o` that subqueries inside predicates select from; default: no columns, no rows)
   | {"case": n, "gen": true}                           dump of the regenerated decisions
out: {"case": n, "steps": [{"model": table, "spec": table, "built": "ok"|"raises"|null,
                            "exec": "ok"|"error"|"noop"|null, "specExec": "ok"|"error"|"noop"|null, "scope": [names]}]}
The model side evaluates `C15.stepCmd genFlags` (the definitions the theorems are about), the
specification side `C15.specCmd`.  Pure function of its input lines.
-/
import SqlframeModel.Codec.C15
open Lean Sqlframe Sqlframe.C15

structure Case where
  case : Nat
  table : Option Table := none
  other : Option Table := none
  cmds : Option (List Cmd) := none
  gen : Option Bool := none
  deriving FromJson

def steps (O : Table) : List Cmd → Sess → SpecSess → List Json → List Json
  | [], _, _, acc => acc.reverse
  | c :: cs, s, sp, acc =>
    let s' := stepCmd genFlags O c s
    let sp' := specCmd O c sp
    let info : List (String × Json) := match c with
      | .build d =>
        [("built", toJson (match build genFlags d with | some _ => "ok" | none => "raises")),
         ("exec", Json.null), ("specExec", Json.null), ("scope", toJson (violated O.cols d))]
      | .exec i =>
        let m : String := match listGet s.lazies i with
          | some (some st) => (match execStmt O st s.tbl with | some _ => "ok" | none => "error")
          | _ => "noop"
        let (q, sc) : String × List String := match listGet sp.pending i with
          | some d => ((match specDml O d sp.tbl with | some _ => "ok" | none => "error"), violated O.cols d)
          | none => ("noop", [])
        [("built", Json.null), ("exec", toJson m), ("specExec", toJson q), ("scope", toJson sc)]
    let j := Json.mkObj ([("model", s'.tbl.toPlain), ("spec", sp'.tbl.toPlain)] ++ info)
    steps O cs s' sp' (j :: acc)

def genDump : Json :=
  let qs : List Gen.Dml.Qual := [.none, .cte, .phys, .other, .sub]
  let lexJ (lx : Lex) : Json := toJson [lx.dqString, lx.backtick, lx.escapes]
  let names : List String := ["", "spark", "spark2", "databricks", "hive", "duckdb", "postgres", "mysql", "bigquery", "snowflake", "redshift",
    "tsql", "sqlite", "trino", "presto", "clickhouse", "oracle", "doris", "starrocks"]
  Json.mkObj [
    ("predDialect", toJson (reprStr Gen.Dml.predDialect)), ("predDialectName", toJson (dialectName Gen.Dml.predDialect)),
    ("sessionInputDefault", toJson Gen.Dml.sessionInputDefault), ("sessionOutputDefault", toJson Gen.Dml.sessionOutputDefault),
    ("predLex", lexJ genFlags.predLex), ("sparkLex", lexJ sparkLex),
    ("lexTable", Json.mkObj (names.map (fun n => (n, lexJ (lexOf n))))),
    ("defaultPred", toJson Gen.Dml.defaultPred), ("predStringParsed", toJson Gen.Dml.predStringParsed),
    ("predListAnd", toJson Gen.Dml.predListAnd),
    ("predMatches", toJson (qs.map Gen.Dml.predMatches)), ("predTo", toJson (reprStr Gen.Dml.predTo)),
    ("predElseRaises", toJson Gen.Dml.predElseRaises), ("predAliasStripped", toJson Gen.Dml.predAliasStripped),
    ("rhsMatches", toJson (qs.map Gen.Dml.rhsMatches)), ("rhsTo", toJson (reprStr Gen.Dml.rhsTo)),
    ("rhsElseRaises", toJson Gen.Dml.rhsElseRaises), ("rhsAliasStripped", toJson Gen.Dml.rhsAliasStripped),
    ("updateTarget", toJson (reprStr Gen.Dml.updateTarget)), ("deleteTarget", toJson (reprStr Gen.Dml.deleteTarget)),
    ("buildExecutes", toJson genFlags.buildExecutes), ("executeRuns", toJson genFlags.executeRuns)]

def handle (line : String) : String :=
  match Json.parse line >>= fromJson? (α := Case) with
  | .error e => Json.compress (Json.mkObj [("err", toJson s!"bad-input: {e}")])
  | .ok c =>
    if c.gen = some true then Json.compress (Json.mkObj [("case", toJson c.case), ("gen", genDump)]) else
    match c.table, c.cmds with
    | some T, some cmds =>
      let O : Table := c.other.getD { cols := [], rows := [] }
      Json.compress (Json.mkObj [("case", toJson c.case), ("steps", Json.arr (steps O cmds { tbl := T } { tbl := T } []).toArray)])
    | _, _ => Json.compress (Json.mkObj [("err", toJson "no table / cmds")])

partial def loop (h : IO.FS.Stream) (out : IO.FS.Stream) : IO Unit := do
  let line ← h.getLine
  if line.isEmpty then return ()
  if line.trimAscii.isEmpty then loop h out else
  out.putStrLn (handle line)
  loop h out

def main : IO Unit := do
  let out ← IO.getStdout
  loop (← IO.getStdin) out
