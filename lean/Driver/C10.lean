/-
Driver/C10.lean — line-protocol driver for C10.  Evaluates the definitions the theorems of Props/C10.lean
are about (`create`, `nstep`, the four views, `specRun`, `StepsOK`'s parts, `quoteIdent`, `lex`) on one case.
in : {"case": n, "low": [[s, low s]], "key": [[t, key t]], "typed": [[t, typed t]], "create": [names],
      "steps": [NStep], "idents": [[cp]], "sql": [cp], "reserved": [bool]}
-/
import SqlframeModel.Codec.C10
import SqlframeModel.Codec.C09
open Lean Sqlframe Sqlframe.C09 Sqlframe.C10

structure Case where
  case : Nat
  low : List (String × String)
  key : List (String × String)
  typed : List (String × String)
  back : List (String × String)
  create : List String
  steps : List NStep
  idents : List (List Nat)
  sql : List Nat
  reserved : List Bool
  folds : List (Bool × List Nat × List Nat)
  deriving FromJson

/-- run model and specification side by side, collecting violated hypotheses and well-formedness -/
def walk (F : NameFns) : NDF → List String → List NStep → List String → Bool → (NDF × List String × List String × Bool)
  | d, sp, [], v, wf => (d, sp, v, wf)
  | d, sp, s :: ss, v, wf =>
    walk F (nstep F d s) (specStep F sp s) ss (v ++ stepViolated F d sp s) (wf && decide (StepWF F sp s))

def tail3 : List Char := [' ', 'A', 'S']

def handle (line : String) : String :=
  match Json.parse line >>= fromJson? (α := Case) with
  | .error e => Json.compress (Json.mkObj [("err", toJson s!"bad-input: {e}")])
  | .ok c =>
    let F := fnsOfTables c.low c.key c.typed c.back
    let dom := (c.low.map (·.1)) ++ (c.low.map (·.2))
    let idem := dom.all (fun s => F.low (F.low s) == F.low s)
    let lows := (c.low.map (·.2)).eraseDups
    let keyInj := lows.all (fun a => lows.all (fun b => F.key a != F.key b || a == b))
    let wf0 := decide ((c.create.map F.low).Nodup)
    let (d, sp, v, wf) := walk F (create F c.create) c.create c.steps [] wf0
    let v := if decide (H_quoteAgree F sp) then v else v ++ ["H_quoteAgree"]
    let v := if decide (H_collectReparse F sp) then v else v ++ ["H_collectReparse"]
    let ids := c.idents.map ofCps
    let qid := ids.map (fun s => cps (quoteIdent s))
    let idOk := ids.map (fun s => decide (lex (quoteIdent s ++ tail3) = Tok.quoted DQ s :: lex tail3) &&
                                  decide (unquoteIdent (quoteIdent s) = some s))
    let toks := lex (ofCps c.sql)
    let sqlIds := toks.filterMap (fun t => match t with | .quoted q s => if q = DQ then some (cps s) else none | _ => none)
    let unterminated := toks.any (fun t => t == Tok.unterminated)
    let ob := c.reserved.map (fun r =>
      Json.mkObj [("ok", toJson (orderByOk r)), ("h", toJson (decide (H_orderByReserved r)))])
    let folds := c.folds.map (fun (bare, a, b) => orderKeyVisible bare (ofCps a) (ofCps b))
    Json.compress (Json.mkObj [
      ("case", toJson c.case), ("folds", toJson folds),
      ("columns", toJson (columns F d)), ("fields", toJson (fields F d)), ("pandas", toJson (pandas F d)),
      ("schema", toJson (schemaNames F d)), ("spec", toJson sp), ("scope", toJson v.eraseDups), ("wf", toJson wf), ("raises", toJson (raises F c.steps)),
      ("laws", Json.mkObj [("idem", toJson idem), ("keyInj", toJson keyInj)]),
      ("qid", toJson qid), ("idOk", toJson idOk), ("sqlIds", toJson sqlIds), ("unterminated", toJson unterminated),
      ("orderBy", toJson ob)])

partial def loop (h : IO.FS.Stream) (out : IO.FS.Stream) : IO Unit := do
  let line ← h.getLine
  if line.isEmpty then return ()
  if line.trimAscii.isEmpty then loop h out else
  out.putStrLn (handle line)
  loop h out

def main : IO Unit := do
  let out ← IO.getStdout
  loop (← IO.getStdin) out
