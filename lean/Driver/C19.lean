/-
Driver/C19.lean — line-protocol driver for C19.
in : {"case": n, "kind": "row", "ctor": Ctor, "ops": [Op]}
     {"case": n, "kind": "assertseq", "actual": [Val], "expected": [Val], "calls": [{"order", "sel": "ae"|"ea"|"aa"|"ee", "close"}]}
     {"case": n, "kind": "assertargs", "actual": Arg, "expected": Arg, "order": bool, "close": …}   Arg = null | {"rows"} | {"frame": {"schema", "rows"}}
     {"case": n, "kind": "assert", "actual": [Val], "expected": [Val], "order": bool, "close": [[a, b, bool]]}
     {"case": n, "kind": "schema", "a": DType(struct), "e": DType(struct)}
out: {"case": n, "sf": …, "ps": …}   (lists of outcomes / verdicts of the two transcriptions)
Pure function of its input lines.
-/
import SqlframeModel.Codec.C19
open Lean Sqlframe.C19

def closeTable (tbl : List (Int × Int × Bool)) (a b : Int) : Bool :=
  match tbl.find? (fun x => x.1 == a && x.2.1 == b) with
  | some x => x.2.2
  | none => a == b

def tableFromJson (j : Json) : Except String (List (Int × Int × Bool)) := do
  let tblJ ← j.getArr?
  tblJ.toList.mapM (fun t => do
    let arr ← t.getArr?
    match arr.toList with
    | [x, y, z] => pure ((← x.getInt?), (← y.getInt?), (← z.getBool?))
    | _ => .error "bad close entry")

def callFromJson (j : Json) : Except String Call := do
  let tbl ← tableFromJson (← j.getObjVal? "close")
  pure { close := closeTable tbl, order := (← (← j.getObjVal? "order").getBool?), sel := (← selFromJson (← j.getObjVal? "sel")) }

def seqOut (r : List Bool × St) : Json :=
  Json.mkObj [("verdicts", toJson r.1), ("a", Json.arr (r.2.a.map valToJson).toArray), ("e", Json.arr (r.2.e.map valToJson).toArray)]

def handleCase (j : Json) : Except String Json := do
  let case ← j.getObjVal? "case"
  let kind ← (← j.getObjVal? "kind").getStr?
  if kind == "row" then
    let c ← ctorFromJson (← j.getObjVal? "ctor")
    let ops ← (← (← j.getObjVal? "ops").getArr?).toList.mapM opFromJson
    pure (Json.mkObj [("case", case),
      ("sf", Json.arr ((Sf.run c ops).map outToJson).toArray),
      ("ps", Json.arr ((Ps.run c ops).map outToJson).toArray),
      ("psFloatified", Json.arr ((Ps.run c.floatify ops).map outToJson).toArray)])
  else if kind == "assert" then
    let a ← (← (← j.getObjVal? "actual").getArr?).toList.mapM valFromJson
    let e ← (← (← j.getObjVal? "expected").getArr?).toList.mapM valFromJson
    let order ← (← j.getObjVal? "order").getBool?
    let tblJ ← (← j.getObjVal? "close").getArr?
    let tbl ← tblJ.toList.mapM (fun t => do
      let arr ← t.getArr?
      match arr.toList with
      | [x, y, z] => pure ((← x.getInt?), (← y.getInt?), (← z.getBool?))
      | _ => .error "bad close entry")
    pure (Json.mkObj [("case", case),
      ("sf", toJson (Sf.verdict (closeTable tbl) order a e)),
      ("ps", toJson (Ps.verdict (closeTable tbl) order a e))])
  else if kind == "assertseq" then
    let a ← (← (← j.getObjVal? "actual").getArr?).toList.mapM valFromJson
    let e ← (← (← j.getObjVal? "expected").getArr?).toList.mapM valFromJson
    let calls ← (← (← j.getObjVal? "calls").getArr?).toList.mapM callFromJson
    pure (Json.mkObj [("case", case), ("sf", seqOut (Sf.runCalls calls ⟨a, e⟩)), ("ps", seqOut (Ps.runCalls calls ⟨a, e⟩))])
  else if kind == "assertargs" then
    let a ← argFromJson (← j.getObjVal? "actual")
    let e ← argFromJson (← j.getObjVal? "expected")
    let order ← (← j.getObjVal? "order").getBool?
    let tbl ← tableFromJson (← j.getObjVal? "close")
    pure (Json.mkObj [("case", case),
      ("sf", toJson (Sf.verdictArgs (closeTable tbl) order a e)),
      ("ps", toJson (Ps.verdictArgs (closeTable tbl) order a e))])
  else if kind == "schema" then
    match (← dtypeFromJson (← j.getObjVal? "a")), (← dtypeFromJson (← j.getObjVal? "e")) with
    | .struct fa, .struct fe =>
      pure (Json.mkObj [("case", case), ("sf", toJson (Sf.schemaVerdict fa fe)), ("ps", toJson (Ps.schemaVerdict fa fe))])
    | _, _ => .error "schemas must be structs"
  else .error s!"unknown kind {kind}"

def handle (line : String) : String :=
  match Json.parse line >>= handleCase with
  | .error e => Json.compress (Json.mkObj [("err", toJson s!"bad-input: {e}")])
  | .ok j => Json.compress j

partial def loop (h : IO.FS.Stream) (out : IO.FS.Stream) : IO Unit := do
  let line ← h.getLine
  if line.isEmpty then return ()
  if line.trimAscii.isEmpty then loop h out else
  out.putStrLn (handle line)
  loop h out

def main : IO Unit := do
  let out ← IO.getStdout
  loop (← IO.getStdin) out
