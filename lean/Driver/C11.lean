/-
Driver/C11.lean — line-protocol driver for the actions.
in : {"case": n, "env": [Table], "prog": Prog, "n": k, "names": [String]}
     (a chain of steps over one table is the program `step (… (step (base 0) s₁) …) sₖ`)
out: for the DataFrame the program builds (`Prog.run11`): the model's collect / count / isEmpty / first / head(n) /
     limit(n).collect() / show(n); the sequential meaning `Prog.sem`; whether the program is inside `C11_tree`
     (`wf`); the LIMITs sitting in CTE bodies of the statement (`innerLimits`, oldest first) and the LIMIT that
     `limit(10^6)` leaves on the outer SELECT (`probe`: what `limit` found to merge with, under `Gen.limitLookup`);
     `_unique_field_names` of `names` and of the result's columns; the violated scope hypotheses.
-/
import SqlframeModel.Codec.C07
import SqlframeModel.Impl.C11Tree
open Lean Sqlframe

structure Case where
  case : Nat
  env : List Table
  prog : Prog
  n : Nat
  names : List String
  deriving FromJson

def rowsJson (rs : List Row) : Json := Json.arr (rs.map (fun r => Json.arr (r.map Val.toPlain).toArray)).toArray

/-- an `orderBy` called directly on an `orderBy` somewhere in the program (determinism scope of C01) -/
def adjacentOrderBy : Prog → Bool
  | .base _ => false
  | .step p s => (s.isOrderBy && p.topOrderBy) || adjacentOrderBy p
  | .setop _ l r => adjacentOrderBy l || adjacentOrderBy r
  | .byName _ l r => adjacentOrderBy l || adjacentOrderBy r

def probeN : Nat := 1000000

def handle (line : String) : String :=
  match Json.parse line >>= fromJson? (α := Case) with
  | .error e => Json.compress (Json.mkObj [("err", toJson s!"bad-input: {e}")])
  | .ok c =>
    let d := c.prog.run11 c.env
    let s := c.prog.sem c.env
    let sh := showModel d c.n
    Json.compress (Json.mkObj [
      ("case", toJson c.case),
      ("collect", d.eval.toPlain),
      ("count", toJson (countModel d)),
      ("isEmpty", toJson (isEmptyModel d)),
      ("first", match firstRow d with | none => Json.null | some r => Json.arr (r.map Val.toPlain).toArray),
      ("head", rowsJson (headRows d (some c.n))),
      ("limit", rowsJson (limitRows d c.n)),
      ("showNames", toJson sh.1),
      ("showRows", rowsJson sh.2),
      ("unique", toJson (uniqueFieldNames c.names)),
      ("uniqueCols", toJson (uniqueFieldNames s.cols)),
      ("spec", s.toPlain),
      ("wf", toJson (decide (c.prog.WF11 c.env))),
      ("innerLimits", toJson (histLimits d.hist)),
      ("probe", toJson (d.limit11 probeN).blk.limit),
      ("scope", toJson ((if adjacentOrderBy c.prog then ["D_adjacentOrderBy"] else []) ++
                        (if H_showNonEmpty d c.n then [] else ["H_showNonEmpty"])))])

partial def loop (h : IO.FS.Stream) (out : IO.FS.Stream) : IO Unit := do
  let line ← h.getLine
  if line.isEmpty then return ()
  if line.trimAscii.isEmpty then loop h out else
  out.putStrLn (handle line)
  loop h out

def main : IO Unit := do
  let out ← IO.getStdout
  loop (← IO.getStdin) out
