/-
Driver/C11.lean — line-protocol driver for the actions.
in : {"case": n, "table": Table, "steps": [Step], "n": k, "names": [String]}
out: model's count / isEmpty / first / head(n) / show(n) for the DataFrame built by the steps, the
     specification's rows, and `_unique_field_names` of `names`.
-/
import SqlframeModel.Codec.C01
import SqlframeModel.Impl.C11
open Lean Sqlframe

structure Case where
  case : Nat
  table : Table
  steps : List Step
  n : Nat
  names : List String
  deriving FromJson

def rowsJson (rs : List Row) : Json := Json.arr (rs.map (fun r => Json.arr (r.map Val.toPlain).toArray)).toArray

def handle (line : String) : String :=
  match Json.parse line >>= fromJson? (α := Case) with
  | .error e => Json.compress (Json.mkObj [("err", toJson s!"bad-input: {e}")])
  | .ok c =>
    let d := (DF.init c.table).run c.steps
    let s := specRun c.table c.steps
    let sh := showModel d c.n
    Json.compress (Json.mkObj [
      ("case", toJson c.case),
      ("count", toJson (countModel d)),
      ("isEmpty", toJson (isEmptyModel d)),
      ("first", match firstRow d with | none => Json.null | some r => Json.arr (r.map Val.toPlain).toArray),
      ("head", rowsJson (headRows d (some c.n))),
      ("showNames", toJson sh.1),
      ("showRows", rowsJson sh.2),
      ("unique", toJson (uniqueFieldNames c.names)),
      ("spec", s.toPlain),
      ("scope", toJson ((violated c.steps) ++ (if H_showNonEmpty d c.n then [] else ["H_showNonEmpty"])))])

partial def loop (h : IO.FS.Stream) (out : IO.FS.Stream) : IO Unit := do
  let line ← h.getLine
  if line.isEmpty then return ()
  if line.trimAscii.isEmpty then loop h out else
  out.putStrLn (handle line)
  loop h out

def main : IO Unit := do
  let out ← IO.getStdout
  loop (← IO.getStdin) out
