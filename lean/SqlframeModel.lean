import SqlframeModel.Core.Value
import SqlframeModel.Core.Expr
import SqlframeModel.Core.Table
import SqlframeModel.Core.Sql
